"""Check runner: cases → paths → obligations → replay → evidence / exit code."""

from __future__ import annotations

import ast
import hashlib
import importlib
import inspect
import json
import multiprocessing as mp
import os
import re
import subprocess
import sys
import textwrap
import time
import traceback
from pathlib import Path

ROOT = Path(__file__).resolve().parent.parent
OUT = Path(os.environ.get("SYMX_OUT") or ROOT)  # where evidence/ and replays/ are written
EXIT_OK, EXIT_VIOLATION, EXIT_HARNESS = 0, 1, 3


# ----------------------------------------------------------------------------- source patching (canaries)


class StaleCanary(Exception):
    pass


def _resolve(target: str):
    modname, _, qual = target.partition(":")
    mod = importlib.import_module(modname)
    obj = mod
    parent = None
    for part in qual.split("."):
        parent = obj
        obj = inspect.getattr_static(obj, part) if inspect.isclass(obj) else getattr(obj, part)
    return mod, parent, obj


def _underlying_function(obj):
    seen = set()
    while True:
        if id(obj) in seen:
            break
        seen.add(id(obj))
        if isinstance(obj, (staticmethod, classmethod)):
            obj = obj.__func__
            continue
        if isinstance(obj, property):
            obj = obj.fget
            continue
        if hasattr(obj, "__wrapped__"):
            obj = obj.__wrapped__
            continue
        if hasattr(obj, "py_func"):
            obj = obj.py_func
            continue
        hit = False
        for attr in ("method", "func", "fget", "_func", "function"):
            if not inspect.isfunction(obj) and inspect.isfunction(getattr(obj, attr, None)):
                obj = getattr(obj, attr)  # pde.tools.cache.cached_method / cached_property style wrappers
                hit = True
                break
        if hit:
            continue
        break
    if not inspect.isfunction(obj):
        raise StaleCanary(f"cannot find python function behind {obj!r}")
    return obj


def patch_function(target: str, old, new=None):
    """replace ``old`` by ``new`` in the source of one function of /repo (in this process only)

    The function's code object is swapped in place, so every existing reference sees the
    mutated behaviour.  Raises StaleCanary when the anchor text is not found exactly once.
    """
    mod, _parent, obj = _resolve(target)
    fn = _underlying_function(obj)
    src = textwrap.dedent(inspect.getsource(fn))
    pairs = [(old, new)] if isinstance(old, str) else list(old)
    src2 = src
    for o, n in pairs:
        if src2.count(o) != 1:
            raise StaleCanary(f"anchor {o!r} found {src2.count(o)} times in {target}")
        src2 = src2.replace(o, n)
    tree = ast.parse(src2)
    fdef = tree.body[0]
    assert isinstance(fdef, (ast.FunctionDef, ast.AsyncFunctionDef))
    fdef.decorator_list = []
    if fn.__code__.co_freevars:
        # rebuild a closure with the same free variables
        free = fn.__code__.co_freevars
        outer = ast.parse("def __outer__():\n" + "".join(f"    {v} = None\n" for v in free) + "    return None").body[0]
        outer.body = outer.body[:-1] + [fdef, ast.Return(value=ast.Name(id=fdef.name, ctx=ast.Load()))]
        tree.body = [outer]
        ast.fix_missing_locations(tree)
        ns = dict(mod.__dict__)
        exec(compile(tree, inspect.getsourcefile(fn) or "<canary>", "exec"), ns)
        newfn = ns["__outer__"]()
        if set(newfn.__code__.co_freevars) != set(free):
            raise StaleCanary("free variables changed")
        # order of freevars must match for __code__ assignment with the existing closure
        if newfn.__code__.co_freevars != free:
            raise StaleCanary("free variable order changed")
    else:
        ast.fix_missing_locations(tree)
        ns = dict(mod.__dict__)
        exec(compile(tree, inspect.getsourcefile(fn) or "<canary>", "exec"), ns)
        newfn = ns[fdef.name]
    fn.__code__ = newfn.__code__
    return fn


# ----------------------------------------------------------------------------- worker


def _import_check(check_id: str):
    for p in sorted((ROOT / "checks").glob(f"{check_id.lower()}_*.py")):
        return importlib.import_module(f"checks.{p.stem}")
    raise SystemExit(f"no check module for {check_id}")


def _run_case(args):
    """executed in a forked child: explore one case, return a JSON-able summary"""
    check_id, case, canary = args
    from . import explore as E

    t0 = time.time()
    sys.set_int_max_str_digits(0)
    out = {"case": case["name"], "canary": canary["name"] if canary else None}
    try:
        mod = _import_check(check_id)
        if canary:
            try:
                grouped = {}
                for tgt, old, new in canary.get("patch", []):
                    grouped.setdefault(tgt, []).append((old, new))
                for tgt, pairs in grouped.items():
                    patch_function(tgt, pairs)
            except StaleCanary as e:
                out.update(status="stale", msg=str(e), wall_s=time.time() - t0)
                return out
        cfg = dict(case.get("cfg", {}))
        if canary and canary.get("cfg"):
            cfg.update(canary["cfg"])
        scenario = getattr(mod, case["scenario"])
        b = dict(getattr(mod, "BOUNDS", {}))
        b.update(case.get("bounds", {}))
        allowed = tuple(getattr(mod, a) if isinstance(a, str) else a for a in case.get("allowed", ()))
        res = E.explore(
            scenario,
            cfg,
            max_paths=b.get("max_paths", 2000),
            tmax=b.get("tmax", 240.0),
            query_timeout_ms=b.get("query_timeout_ms", 20000),
            max_decisions=b.get("max_decisions", 400),
            max_int_fork=b.get("max_int_fork", 64),
            keep_smt=1,
            allowed_exceptions=allowed,
            validate_paths=case.get("validate_paths", 2),
            path_timeout=b.get("path_timeout", 120.0),
        )
        failed = [o.as_dict() for o in res.obligations if o.verdict != "unsat"]
        sample = None
        for o in res.obligations:
            if o.smt:
                sample = {"obligation": o.name, "verdict": o.verdict, "smt2_negated_claim": o.smt}
                break
        names = {}
        for o in res.obligations:
            names[o.name] = names.get(o.name, 0) + 1
        out.update(
            status="done",
            stats=res.stats.as_dict(),
            complete=res.complete,
            failed=failed,
            errors=res.errors[:5],
            n_errors=len(res.errors),
            obligation_names=names,
            slowest=[(o.name, round(o.time, 2), o.detail) for o in sorted(res.obligations, key=lambda o: -o.time)[:3]],
            query_timeout_ms=b.get("query_timeout_ms", 20000),
            sample=sample,
            path_samples=res.path_samples,
            validation_points=res.validation_points,
            notes=res.notes,
            wall_s=time.time() - t0,
        )
    except BaseException as e:  # noqa: BLE001 - report everything from the child
        out.update(status="crash", msg=f"{type(e).__name__}: {e}", trace=traceback.format_exc()[-4000:], wall_s=time.time() - t0)
    return out


# ----------------------------------------------------------------------------- replay


def replay_counterexample(check_id: str, case: dict, obligation: dict, outdir: Path, tag="cex", extra_env=None) -> dict:
    """write a replay file and run it in a fresh JIT-enabled interpreter on the real code"""
    payload = {
        "property": check_id,
        "case": case,
        "obligation": obligation["name"],
        "values": obligation.get("model") or {},
        "path": [bool(x) for x in (obligation.get("path") or [])],
    }
    h = hashlib.sha1(json.dumps(payload, sort_keys=True).encode()).hexdigest()[:12]
    outdir.mkdir(parents=True, exist_ok=True)
    f = outdir / f"{check_id}-{tag}-{h}.json"
    f.write_text(json.dumps(payload, indent=1))
    res = run_replay_file(f, extra_env=extra_env)
    payload["replay_result"] = res
    f.write_text(json.dumps(payload, indent=1))
    res["file"] = str(f)
    return res


def run_replay_file(path: Path, extra_env=None, timeout=900) -> dict:
    env = dict(os.environ)
    env.pop("NUMBA_DISABLE_JIT", None)
    env["PYTHONPATH"] = str(ROOT) + os.pathsep + env.get("PYTHONPATH", "")
    env["PYTHONDONTWRITEBYTECODE"] = "1"
    env.setdefault("NUMBA_CACHE_DIR", "/tmp/symx_numba_cache")
    if extra_env:
        env.update(extra_env)
    try:
        cp = subprocess.run([sys.executable, "-m", "symx.cli", "_conc", str(path)], cwd=str(ROOT), env=env, capture_output=True, text=True, timeout=timeout)
    except subprocess.TimeoutExpired:
        return {"reproduced": False, "error": "replay timeout"}
    for line in reversed(cp.stdout.splitlines()):
        if line.startswith("CONC-RESULT "):
            return json.loads(line[len("CONC-RESULT "):])
    return {"reproduced": False, "error": "no result from replay", "stdout": cp.stdout[-1500:], "stderr": cp.stderr[-1500:]}


def conc_main(path: str) -> int:
    """entry point of the replay subprocess (JIT enabled, unpatched code, floats)"""
    from . import explore as E

    payload = json.loads(Path(path).read_text())
    mod = _import_check(payload["property"])
    case = payload["case"]
    scenario = getattr(mod, case["scenario"])
    failed, checked, err, notes = E.run_concrete(scenario, dict(case.get("cfg", {})), payload["values"])
    want = payload["obligation"]
    hit = [f for f in failed if f["name"] == want or (want.startswith("no-exception:") and f["name"].startswith("no-exception:"))]
    other = [f for f in failed if f.get("kind") != "exception"] if not hit else []
    res = {
        # reproduced: the real (JIT) build violates the target obligation at the solver's input - or, failing that,
        # another obligation of the same scenario (a defect can surface differently on float arrays than on the
        # object arrays of the symbolic run, e.g. as an aliasing instead of a read-only view)
        "reproduced": bool(hit) or bool(other),
        "reproduced_as": (hit[0]["name"] if hit else (other[0]["name"] if other else None)),
        "failed": failed[:10],
        "target_checked": want in checked,
        "error": err,
        "jit_disabled": bool(os.environ.get("NUMBA_DISABLE_JIT")),
        "notes": {k: str(v)[:300] for k, v in notes.items()},
    }
    print("CONC-RESULT " + json.dumps(res))
    return 0


def concval_main(path: str) -> int:
    """encoding validation subprocess: run the scenario on floats (JIT build), print observables"""
    from . import explore as E

    payload = json.loads(Path(path).read_text())
    mod = _import_check(payload["property"])
    out = []
    for item in payload["items"]:
        case = item["case"]
        scenario = getattr(mod, case["scenario"])
        obs, err = E.concrete_observables(scenario, dict(case.get("cfg", {})), item["values"])
        out.append({"observed": obs, "error": err})
    print("CONCVAL-RESULT " + json.dumps(out))
    return 0


def _cmp_observables(sym: dict, conc: dict, rtol=1e-6):
    """compare model-evaluated symbolic observables with the float run; returns list of mismatches"""
    from fractions import Fraction

    bad = []
    n = 0
    for name, sv in sym.items():
        cv = conc.get(name)
        if cv is None or len(cv) != len(sv):
            bad.append(f"{name}: length {None if cv is None else len(cv)} vs {len(sv)}")
            continue
        for i, (a, b) in enumerate(zip(sv, cv)):
            if a is None:
                continue
            n += 1
            try:
                fa = float(Fraction(a))
                fb = float(b) if b not in ("True", "False") else None
            except (ValueError, ZeroDivisionError):
                fa = fb = None
            if fa is None or fb is None:
                if str(a) != str(b):
                    bad.append(f"{name}[{i}]: {a} vs {b}")
                continue
            if not abs(fa - fb) <= rtol * max(1.0, abs(fa)):
                bad.append(f"{name}[{i}]: symbolic {fa!r} vs JIT {fb!r}")
    return bad, n


def validate_encoding(check_id, points, outdir: Path, jobs=8):
    """points: list of (case, validation_point). Returns (n_ok, mismatches, errors)"""
    from concurrent.futures import ThreadPoolExecutor

    if not points:
        return 0, [], []
    outdir.mkdir(parents=True, exist_ok=True)
    by_case = {}
    for case, vp in points:
        by_case.setdefault(case["name"], []).append((case, vp))
    env = dict(os.environ)
    env.pop("NUMBA_DISABLE_JIT", None)
    env["PYTHONPATH"] = str(ROOT) + os.pathsep + env.get("PYTHONPATH", "")
    env["PYTHONDONTWRITEBYTECODE"] = "1"

    def one(item):
        cname, lst = item
        h = hashlib.sha1(cname.encode()).hexdigest()[:10]
        f = outdir / f"{check_id}-val-{h}.json"
        f.write_text(json.dumps({"property": check_id, "items": [{"case": c, "values": vp["values"]} for c, vp in lst]}))
        try:
            cp = subprocess.run([sys.executable, "-m", "symx.cli", "_concval", str(f)], cwd=str(ROOT), env=env, capture_output=True, text=True, timeout=900)
        except subprocess.TimeoutExpired:
            return cname, None, "timeout"
        finally:
            pass
        f.unlink(missing_ok=True)
        for line in reversed(cp.stdout.splitlines()):
            if line.startswith("CONCVAL-RESULT "):
                return cname, json.loads(line[len("CONCVAL-RESULT "):]), None
        return cname, None, (cp.stderr or cp.stdout)[-800:]

    n_ok, mism, errs = 0, [], []
    with ThreadPoolExecutor(max_workers=jobs) as ex:
        for cname, res, err in ex.map(one, by_case.items()):
            if res is None:
                errs.append(f"{cname}: {err}")
                continue
            for (case, vp), r in zip(by_case[cname], res):
                if r["error"]:
                    if r["error"].startswith("abort: infeasible"):
                        continue  # the model point violates an assumption under the real functions (UF abstraction): skipped
                    errs.append(f"{cname}: {r['error'][:500]}")
                    continue
                bad, n = _cmp_observables(vp["observed"], r["observed"])
                if bad and not vp.get("robust", True):
                    # the only model of this path sits on the edge of a branch condition (tolerance band): floats may
                    # legitimately take the other branch there; counted, not an error
                    EDGE_POINTS.append(f"{cname}: " + "; ".join(bad[:2]))
                elif bad:
                    mism.append(f"{cname}: " + "; ".join(bad[:4]) + f" at {json.dumps(vp['values'])[:400]}")
                elif n:
                    n_ok += 1
    return n_ok, mism, errs


EDGE_POINTS: list = []


def cross_check_cvc5(items, seed, limit=12, tlimit_ms=8000):
    """re-decide exported obligations with the cvc5 binary; returns counts (timeouts/unsupported are 'unknown')"""
    import random
    import shutil
    import tempfile
    from concurrent.futures import ThreadPoolExecutor

    out = {"solver": "cvc5 (binary on PATH)", "requested": 0, "agree_unsat": 0, "unknown_or_timeout": 0, "disagreements": []}
    exe = shutil.which("cvc5")
    if not exe or not items:
        out["solver"] = "cvc5 not available" if not exe else out["solver"]
        return out
    rnd = random.Random(seed)
    items = list(items)
    if len(items) > limit:
        items = rnd.sample(items, limit)
    out["requested"] = len(items)

    def one(it):
        cname, oname, text = it
        with tempfile.NamedTemporaryFile("w", suffix=".smt2", delete=False) as f:
            f.write(text)
            fn = f.name
        try:
            cp = subprocess.run([exe, f"--tlimit={tlimit_ms}", fn], capture_output=True, text=True, timeout=tlimit_ms / 1000 + 10)
            ans = cp.stdout.strip().splitlines()[0] if cp.stdout.strip() else "unknown"
        except subprocess.TimeoutExpired:
            ans = "unknown"
        finally:
            os.unlink(fn)
        return cname, oname, ans

    with ThreadPoolExecutor(max_workers=8) as ex:
        for cname, oname, ans in ex.map(one, items):
            if ans == "unsat":
                out["agree_unsat"] += 1
            elif ans == "sat":
                out["disagreements"].append(f"{cname}/{oname}")
            else:
                out["unknown_or_timeout"] += 1
    return out


# ----------------------------------------------------------------------------- known findings


def load_known_findings():
    f = ROOT / "known_findings.json"
    if not f.exists():
        return []
    return json.loads(f.read_text()).get("findings", [])


def match_known(check_id, case_name, obligation_name, findings):
    for k in findings:
        if k.get("property") != check_id or k.get("status") != "open":
            continue
        if re.search(k["case"], case_name) and re.search(k.get("obligation", "."), obligation_name):
            return k
    return None


# ----------------------------------------------------------------------------- main driver


def resolve_functions(names):
    out = []
    for n in names:
        try:
            _mod, _p, obj = _resolve(n)
            fn = _underlying_function(obj)
            file = inspect.getsourcefile(fn)
            _src, line = inspect.getsourcelines(fn)
            out.append(f"{n} @ {os.path.relpath(file, '/repo') if file and file.startswith('/repo') else file}:{line}")
        except Exception as e:  # noqa: BLE001
            out.append(f"{n} @ UNRESOLVED ({type(e).__name__}: {e})")
    return out


def run_check(check_id: str, tier: str, seed: int, jobs: int | None = None, only: str | None = None, verbose=False) -> int:
    t_start = time.time()
    os.environ["NUMBA_DISABLE_JIT"] = "1"
    import logging

    logging.disable(logging.CRITICAL)
    mod = _import_check(check_id)
    cases = mod.cases(tier, seed)
    if only:
        cases = [c for c in cases if re.search(only, c["name"])]
    canaries = list(getattr(mod, "CANARIES", []))
    case_by_name = {c["name"]: c for c in cases}
    tasks = [(check_id, c, None) for c in cases]
    can_tasks = []
    if not only:
        all_cases = {c["name"]: c for c in mod.cases("thorough" if tier == "quick" else "quick", seed)}
        for cn in canaries:
            c = case_by_name.get(cn["case"]) or all_cases.get(cn["case"])
            if c is None:
                print(f"HARNESS-ERROR canary {cn['name']} refers to unknown case {cn['case']}")
                return EXIT_HARNESS
            can_tasks.append((check_id, c, cn))
    jobs = jobs or min(16, os.cpu_count() or 4)
    # import pde in the parent so that forked children start warm
    import pde  # noqa: F401

    ctx = mp.get_context("fork")
    all_tasks = tasks + can_tasks
    # longest first
    order = sorted(range(len(all_tasks)), key=lambda i: -all_tasks[i][1].get("weight", 1))
    results = [None] * len(all_tasks)
    with ctx.Pool(processes=jobs, maxtasksperchild=1) as pool:
        handles = {i: pool.apply_async(_run_case, (all_tasks[i],)) for i in order}
        for i, h in handles.items():
            try:
                # (a worker that dies - e.g. a crash inside the solver library - loses its task: the wait is bounded)
                results[i] = h.get(timeout=getattr(mod, "CASE_TIMEOUT", 1500) if tier != "quick" else min(1500, getattr(mod, "CASE_TIMEOUT", 1500)))
            except mp.TimeoutError:
                results[i] = {"case": all_tasks[i][1]["name"], "canary": all_tasks[i][2]["name"] if all_tasks[i][2] else None, "status": "crash", "msg": "case timeout"}
    case_results = results[: len(tasks)]
    can_results = results[len(tasks):]

    from .explore import Stats

    total = Stats()
    harness_errors = []
    violations = []
    known_hits = []
    nonrepro = []
    findings = load_known_findings()
    replays_dir = OUT / "replays"
    samples = []
    n_replays = 0
    per_case = []
    ob_names = {}
    val_points = []
    xcheck = []
    cex = []
    n_cex_skipped = 0
    info_lines = set()
    slow_obs = []
    for (cid, case, _), r in zip(tasks, case_results):
        if r["status"] != "done":
            harness_errors.append(f"case {case['name']}: {r['status']}: {r.get('msg')}\n{r.get('trace', '')}")
            continue
        total.merge(r["stats"])
        for k, v in r["obligation_names"].items():
            ob_names[k] = ob_names.get(k, 0) + v
        for nm, tm, det in r.get("slowest", []):
            slow_obs.append((tm, case["name"], nm, det, r.get("query_timeout_ms")))
        per_case.append({"case": case["name"], "paths": r["stats"]["paths"], "obligations": r["stats"]["obligations"], "discharged": r["stats"]["discharged"], "queries": sum(r["stats"]["queries"].values()), "wall_s": round(r["wall_s"], 2), "complete": r["complete"]})
        if r.get("sample"):
            full = r["sample"].get("smt2_negated_claim") or ""
            if r["sample"].get("verdict") == "unsat" and full:
                xcheck.append((case["name"], r["sample"]["obligation"], full))
            if len(samples) < 4:
                smp = dict(r["sample"])
                if len(full) > 6000:
                    smp["smt2_negated_claim"] = full[:6000] + "\n; ... truncated in the evidence file"
                samples.append({"case": case["name"], "cfg": case.get("cfg"), **smp, "paths": r["path_samples"][:1]})
        if not r["complete"] and not case.get("optional"):
            harness_errors.append(f"case {case['name']}: exploration incomplete (left={r['stats']['left']}, paths={r['stats']['paths']})")
        exc_cex = []
        if r["n_errors"] and not case.get("optional"):
            for e in r["errors"][:2]:
                if e["kind"] == "exception" and e.get("values") is not None:
                    # raised inside the code under test: replayed below; a harness error only if it does not reproduce
                    exc_cex.append({"name": f"no-exception:{e['exc_type']}", "model": e["values"], "path": e["path"], "verdict": "sat", "exception": e["msg"], "trace": e.get("trace", "")})
                else:
                    harness_errors.append(f"case {case['name']}: {e['kind']}: {e['msg']}\n{e.get('trace', '')}")
        if r["stats"]["paths"] == 0 and not case.get("optional") and not exc_cex:
            harness_errors.append(f"case {case['name']}: no path completed")
        for ob in exc_cex[:1]:
            cex.append((case, ob))
        for vp in r.get("validation_points", [])[: (1 if tier == "quick" else 3)]:
            val_points.append((case, vp))
        seen_sig = set()
        for ob in r["failed"]:
            if ob.get("info"):
                info_lines.add(f"INFO property={check_id} case={case['name']} informational obligation {ob['name']}: {ob['verdict']}")
                continue
            if ob["verdict"] in ("unknown", "vacuous"):
                if not case.get("optional"):
                    harness_errors.append(f"case {case['name']}: obligation {ob['name']} {ob['verdict']} {ob.get('detail') or ''}")
                continue
            sig = (case["name"], re.sub(r"[:\[].*$", "", ob["name"]))
            if sig in seen_sig:
                n_cex_skipped += 1
                continue
            seen_sig.add(sig)
            cex.append((case, ob))

    # replay counterexamples on the JIT build (parallel, capped)
    max_replays = 24
    if len(cex) > max_replays:
        n_cex_skipped += len(cex) - max_replays
        cex = cex[:max_replays]
    if cex:
        from concurrent.futures import ThreadPoolExecutor

        with ThreadPoolExecutor(max_workers=min(jobs, 8)) as ex:
            rrs = list(ex.map(lambda co: replay_counterexample(check_id, co[0], co[1], replays_dir), cex))
        for (case, ob), rr in zip(cex, rrs):
            n_replays += 1
            if rr.get("reproduced"):
                k = match_known(check_id, case["name"], ob["name"], findings)
                if k:
                    known_hits.append((k, case["name"], ob["name"], rr["file"]))
                else:
                    violations.append((case["name"], ob["name"], rr["file"]))
            else:
                nonrepro.append((case["name"], ob["name"], rr.get("file"), rr.get("error") or ob.get("trace"), rr.get("failed")))
    for ln in sorted(info_lines)[:10]:
        print(ln)

    # encoding validation: symbolic terms evaluated at model points vs. the JIT build on the same floats
    max_val = getattr(mod, "VALIDATE_MAX", 24 if tier == "quick" else 120)
    if len(val_points) > max_val:
        import random

        rnd = random.Random(seed)
        val_points = rnd.sample(val_points, max_val)
    n_val_ok, val_mism, val_errs = validate_encoding(check_id, val_points, replays_dir, jobs=jobs)
    for mm in val_mism[:5]:
        harness_errors.append("encoding validation mismatch (symbolic semantics vs JIT build): " + mm)
    for ee in val_errs[:5]:
        harness_errors.append("encoding validation error: " + ee)

    # second solver: a sample of the discharged obligations is re-decided by cvc5 from the exported SMT-LIB text
    x_summary = cross_check_cvc5(xcheck, seed, limit=getattr(mod, "XCHECK_MAX", 12 if tier == "quick" else 40))
    for dis in x_summary["disagreements"]:
        harness_errors.append(f"solver disagreement (z3 unsat, cvc5 sat) on {dis}")

    # canaries
    can_summary = []
    for (cid, case, cn), r in zip(can_tasks, can_results):
        entry = {"canary": cn["name"], "case": case["name"], "status": r["status"]}
        if r["status"] == "stale":
            entry["detail"] = r.get("msg")
        elif r["status"] != "done":
            entry["detail"] = r.get("msg")
            harness_errors.append(f"canary {cn['name']}: {r['status']} {r.get('msg')}\n{r.get('trace', '')}")
        else:
            sat = [o for o in r["failed"] if o["verdict"] == "sat" and not o.get("info") and re.search(cn.get("expect", "."), o["name"])]
            entry["caught"] = bool(sat)
            entry["sat_obligations"] = sorted({o["name"] for o in sat})[:5]
            if not sat:
                harness_errors.append(f"canary {cn['name']} (planted fault in {cn.get('patch') or cn.get('cfg')}) was NOT detected on case {case['name']}")
        can_summary.append(entry)

    printed = set()
    for k, cname, oname, f in known_hits:
        key = k.get("id") or k["what"]
        if key in printed:
            continue
        printed.add(key)
        print(f"KNOWN-FINDING: property={check_id} {k['what']} [case={cname} obligation={oname} replay={os.path.relpath(f, OUT)}]")
    for cname, oname, f in violations:
        print(f"VIOLATION property={check_id} replay={os.path.relpath(f, OUT)} case={cname} obligation={oname}")
    for cname, oname, f, err, failed in nonrepro:
        harness_errors.append(f"counterexample for {cname}/{oname} did not reproduce on the real (JIT) build: file={f} error={err} failed={failed}")

    wall = time.time() - t_start
    level = getattr(mod, "LEVEL", "model_checking")
    coverage = {
        "states": total.paths,
        "transitions": max(total.decisions, total.paths),
        "traces_validated_against_impl": n_replays + n_val_ok,
        "encoding_validation": {"edge_points_not_compared": len(EDGE_POINTS), "interior_points": sum(1 for _c, _vp in val_points if _vp.get("robust")), "points_compared_ok": n_val_ok, "points_requested": len(val_points), "mismatches": len(val_mism), "errors": len(val_errs), "what": "observables of the symbolic run evaluated at a model of the path condition vs. the same scenario on floats in a fresh interpreter with JIT enabled"},
        "counterexample_replays": n_replays,
        "cvc5_cross_check": {k: v for k, v in x_summary.items() if k != "disagreements"} | {"disagreements": len(x_summary["disagreements"])},
        "counterexamples_not_replayed_duplicates": n_cex_skipped,
        "samples": samples or [{"note": "no obligation sample captured"}],
        "exhaustive": not harness_errors,
        "cases": len(tasks),
        "paths_explored": total.paths,
        "paths_aborted": total.paths_aborted,
        "branch_decisions": total.decisions,
        "smt_queries": total.queries,
        "solver_wall_s": round(total.solver_s, 2),
        "obligations": total.obligations,
        "discharged": total.discharged,
        "inconclusive": total.inconclusive,
        "obligation_kinds": ob_names,
        "slowest_obligations": [{"seconds": t, "case": c, "obligation": n, "how": d, "query_timeout_ms": q} for t, c, n, d, q in sorted(slow_obs, reverse=True)[:8]],
        "reachability_twins_sat": total.reach_ok,
        "reachability_twins_failed": total.reach_fail,
        "denominators_assumed_nonzero": total.nonzero_assumed,
        "sqrt_symbols_introduced": total.sqrt_introduced,
        "functions_encoded": resolve_functions(getattr(mod, "FUNCTIONS", [])),
        "bounds": getattr(mod, "bounds_text", lambda t: getattr(mod, "BOUNDS_TEXT", ""))(tier),
        "outside_bounds": getattr(mod, "OUTSIDE", []),
        "stubs": getattr(mod, "STUBS", []),
        "canaries": can_summary,
        "known_findings_hit": [{"what": k["what"], "case": c, "obligation": o} for k, c, o, _ in known_hits],
        "per_case": per_case if len(per_case) <= 400 else per_case[:400],
        "technique": "symbolic execution of the real /repo functions on z3 terms (NUMBA_DISABLE_JIT=1), per-path SMT validity queries (z3), counterexamples replayed on the JIT build",
        "explanation": getattr(mod, "EXPLANATION", ""),
        "harness_errors": harness_errors[:10],
    }
    if hasattr(mod, "coverage_extra"):
        try:
            coverage.update(mod.coverage_extra([r for r in case_results if r and r.get("status") == "done"]))
        except Exception as e:  # noqa: BLE001
            coverage["coverage_extra_error"] = str(e)
    ev = {
        "property_id": check_id,
        "tier": tier,
        "seed": seed,
        "level": level,
        "coverage": coverage,
        "assumptions": list(getattr(mod, "ASSUMPTIONS", [])) + COMMON_ASSUMPTIONS,
        "wall_s": round(wall, 2),
        "violations": len(violations),
    }
    (OUT / "evidence").mkdir(parents=True, exist_ok=True)
    (OUT / "evidence" / f"{check_id}.json").write_text(json.dumps(ev, indent=1, default=str))
    print(
        f"{check_id} tier={tier}: cases={len(tasks)} paths={total.paths} obligations={total.obligations} discharged={total.discharged} "
        f"inconclusive={total.inconclusive} queries={sum(total.queries.values())} solver_s={total.solver_s:.1f} canaries={sum(1 for c in can_summary if c.get('caught'))}/{len(can_summary)} "
        f"(stale {sum(1 for c in can_summary if c['status'] == 'stale')}) known={len(printed)} violations={len(violations)} wall={wall:.1f}s"
    )
    for h in harness_errors[: int(os.environ.get("SYMX_MAX_ERRORS", "12"))]:
        print("HARNESS-ERROR " + h)
    if violations:
        return EXIT_VIOLATION
    if harness_errors:
        return EXIT_HARNESS
    return EXIT_OK


COMMON_ASSUMPTIONS = [
    "floats are modelled as exact reals (float constants lifted exactly); accumulated round-off, NaN/Inf, fastmath reassociation are outside the claim",
    "kernels are executed from their Python source with NUMBA_DISABLE_JIT=1; numba's lowering is tied in only by replaying counterexamples/canaries on the JIT build",
    "claims hold only within the stated bounds (shapes, unrollings, history lengths, value boxes)",
    "every symbolic denominator is assumed non-zero; sqrt arguments are assumed non-negative",
]
