"""Path explorer: re-executes a scenario once per feasible path, discharging obligations with z3.

A *scenario* is a function ``scenario(env, cfg)`` that builds objects from /repo, declares
its symbolic inputs through ``env`` and states obligations with ``env.prove/close``.  The
same function runs in two modes:

* symbolic (``SymEnv``): inputs are z3-backed values, branches fork, obligations are SMT
  queries ``assumptions ∧ path-condition ∧ ¬claim`` that must be ``unsat``;
* concrete (``ConcEnv``, used by replays in a fresh JIT-enabled interpreter): inputs are
  floats taken from a solver model, obligations are evaluated numerically.
"""

from __future__ import annotations

import math
import os
import time
import traceback
from fractions import Fraction

import numpy as np
import z3

from . import values as V
from .values import SymBool, SymComplex, SymInt, SymReal, as_bool_term, as_term

EPS = Fraction(1, 10**9)


class PathAbort(BaseException):
    """control exception: the current path cannot be continued (infeasible / unknown / bound)"""

    def __init__(self, kind, msg=""):
        super().__init__(f"{kind}: {msg}")
        self.kind = kind
        self.msg = msg


class Stats:
    def __init__(self):
        self.paths = 0
        self.paths_aborted = {}
        self.decisions = 0
        self.queries = {"sat": 0, "unsat": 0, "unknown": 0}
        self.solver_s = 0.0
        self.obligations = 0
        self.discharged = 0
        self.inconclusive = 0
        self.reach_ok = 0
        self.reach_fail = 0
        self.nonzero_assumed = 0
        self.sqrt_introduced = 0
        self.fresh_queries = 0
        self.left = 0
        self.max_pc = 0

    def as_dict(self):
        return dict(self.__dict__)

    def merge(self, o: dict):
        for k, v in o.items():
            if isinstance(v, dict):
                d = getattr(self, k)
                for kk, vv in v.items():
                    d[kk] = d.get(kk, 0) + vv
            elif k == "max_pc":
                self.max_pc = max(self.max_pc, v)
            else:
                setattr(self, k, getattr(self, k) + v)


def _timed_check(solver, budget_ms):
    """solver.check() under z3's own time-out (set on the solver by the caller).

    An earlier version interrupted the context from a timer thread to enforce a hard wall-clock limit; under load the
    late interrupts raced with other z3 calls of the main thread and crashed libz3 (segfaults, lost pool tasks), so the
    limit is z3's soft time-out again, with the per-path watchdog as the backstop."""
    try:
        return str(solver.check())
    except z3.Z3Exception:
        return "unknown"


def _is_zero(t):
    return z3.is_rational_value(t) and t.numerator_as_long() == 0


def _term_info(f, hidden_ids):
    """(ids of hidden constants, ids of uninterpreted applications) occurring in f"""
    hid, ufs = set(), set()
    seen = set()
    stack = [f]
    while stack:
        x = stack.pop()
        if x.get_id() in seen:
            continue
        seen.add(x.get_id())
        if z3.is_app(x):
            if x.decl().kind() == z3.Z3_OP_UNINTERPRETED:
                if x.num_args() > 0:
                    ufs.add(x.get_id())
                elif x.get_id() in hidden_ids:
                    hid.add(x.get_id())
            stack.extend(x.children())
    return hid, ufs


def _cone_of_influence(fs, n_goal, hidden_ids):
    """drop the hypotheses that only constrain auxiliary symbols (square roots, ...) the goal does not depend on

    ``fs`` = hypotheses followed by ``n_goal`` goal formulas.  Dropping hypotheses over-approximates: "unsat" carries over.
    A hypothesis is kept when it mentions an auxiliary symbol the goal (transitively) depends on, or mentions none and
    no uninterpreted application outside those already in the cone."""
    if not n_goal:
        return fs
    hyps, goal = fs[: len(fs) - n_goal], fs[len(fs) - n_goal :]
    info = [_term_info(f, hidden_ids) for f in hyps]
    need_h, need_u = set(), set()
    for g in goal:
        h, u = _term_info(g, hidden_ids)
        need_h |= h
        need_u |= u
    keep = [False] * len(hyps)
    changed = True
    while changed:
        changed = False
        for i, (h, u) in enumerate(info):
            if not keep[i] and h & need_h:
                keep[i] = True
                if not h <= need_h or not u <= need_u:
                    need_h |= h
                    need_u |= u
                    changed = True
    for i, (h, u) in enumerate(info):
        if not keep[i] and not h and u <= need_u:
            keep[i] = True
    return [f for f, k in zip(hyps, keep) if k] + list(goal)


def _abstract_uf(fs):
    """formulas with every outermost uninterpreted application replaced by a fresh constant (None: nothing to do)"""
    apps = {}
    seen = set()
    stack = list(fs)
    while stack:
        x = stack.pop()
        if x.get_id() in seen:
            continue
        seen.add(x.get_id())
        if z3.is_app(x):
            if x.decl().kind() == z3.Z3_OP_UNINTERPRETED and x.num_args() > 0:
                apps[x.get_id()] = x
                continue
            stack.extend(x.children())
        elif z3.is_quantifier(x):
            return None
    if not apps:
        return list(fs)
    pairs = []
    for k, (_, a) in enumerate(sorted(apps.items())):
        pairs.append((a, z3.Const(f"_ufabs{k}", a.sort())))
    return [z3.substitute(f, *pairs) for f in fs]


class PathCtx:
    """state of one path: decisions taken, path condition, incremental solver"""

    def __init__(self, decisions, stats: Stats, query_timeout_ms=20000, max_decisions=400, max_int_fork=64):
        self.decisions = list(decisions)
        self.pos = 0
        self.pc: list = []
        self.assumptions: list = []
        self.solver = z3.Solver()
        self.query_timeout_ms = query_timeout_ms
        self.solver.set("timeout", query_timeout_ms)
        self.pending: list = []
        self.stats = stats
        self.model = None  # model of assumptions ∧ pc (or None if stale)
        self.decided: dict = {}
        self.sqrt_cache: dict = {}
        self.trig_cache: dict = {}
        self.nonzero_seen: set = set()
        self.fresh_n = 0
        self.max_decisions = max_decisions
        self.max_int_fork = max_int_fork
        self.vars: dict = {}  # declared input variables name -> z3 const
        self.hidden: list = []
        self.dim_violations: list = []
        self.dim_tracked = False
        self.fresh_mode = False
        self.fresh_obligations = False
        self.int_subst: list = []

    def dim_violation(self, what, xs):
        if len(self.dim_violations) < 20:
            import traceback as _tb

            fr = [f for f in _tb.extract_stack()[:-3] if "/repo/" in f.filename or "/checks/" in f.filename][-2:]
            where = "; ".join(f"{f.filename.split('/repo/')[-1]}:{f.lineno}" for f in fr)
            self.dim_violations.append(f"{what}({', '.join(f'd={x.d}' for x in xs)}) at {where}")

    # --- solver plumbing
    def _check(self, *extra):
        """satisfiability of assumptions ∧ pc ∧ extra.

        The incremental solver (push/pop) is fast for linear problems but z3 only uses its
        complete non-linear engine (nlsat) on a fresh, non-incremental solver; so ``fresh`` mode
        (set by non-linear scenarios) or an ``unknown`` answer re-decides the query from scratch.
        """
        t0 = time.time()
        r = "unknown"
        m = None
        if not self.fresh_mode:
            if extra:
                self.solver.push()
                self.solver.add(*extra)
            r = _timed_check(self.solver, self.query_timeout_ms)
            if r == "sat":
                m = self.solver.model()
            if extra:
                self.solver.pop()
        if r == "unknown":
            s2 = z3.Solver()
            s2.set("timeout", self.query_timeout_ms)
            fs = list(self.assumptions) + list(self.pc) + list(extra)
            if self.int_subst:
                # integers pinned on this path (int(x) concretisations) are substituted so that the
                # query is purely polynomial and nlsat applies
                fs = [z3.substitute(f, *self.int_subst) for f in fs]
            s2.add(*fs)
            r = _timed_check(s2, self.query_timeout_ms)
            if r == "sat":
                m = s2.model()
            self.stats.fresh_queries = getattr(self.stats, "fresh_queries", 0) + 1
            if r == "unknown":
                # uninterpreted applications (log, atan, ... of symbolic arguments) keep z3 away from nlsat:
                # replacing every outermost application by a fresh constant over-approximates the query, so
                # "unsat" carries over; any other answer is discarded (a model could violate functionality)
                abstracted = _abstract_uf(_cone_of_influence(fs, len(extra), {h.get_id() for h in self.hidden}))
                if abstracted is not None:
                    s3 = z3.Solver()
                    s3.set("timeout", self.query_timeout_ms)
                    s3.add(*abstracted)
                    if _timed_check(s3, self.query_timeout_ms) == "unsat":
                        r = "unsat"
                    self.stats.fresh_queries += 1
        self.stats.queries[r] = self.stats.queries.get(r, 0) + 1
        self.stats.solver_s += time.time() - t0
        return r, m

    def add_assumption(self, t):
        t = z3.simplify(t) if not isinstance(t, bool) else z3.BoolVal(t)
        if z3.is_true(t):
            return
        self.assumptions.append(t)
        self.solver.add(t)
        if self.model is not None and not self._model_true(t):
            self.model = None

    def _model_true(self, t):
        try:
            v = self.model.eval(t, model_completion=True)
        except z3.Z3Exception:
            return False
        return z3.is_true(v)

    def _ensure_model(self):
        if self.model is None:
            r, m = self._check()
            if r == "unsat":
                raise PathAbort("infeasible", "assumptions contradict the path condition")
            if r != "sat":
                raise PathAbort("unknown", "feasibility of path")
            self.model = m
        return self.model

    # --- forking
    def branch(self, cond, int_value=None) -> bool:
        """decide a branch condition; decisions are recorded as (taken, structural hash of the
        condition, pinned integer value or None) so that a re-execution that diverges from the
        recorded prefix is detected instead of silently mis-applied"""
        h = cond.hash()  # of the raw term: built deterministically by the executed python code
        cond = z3.simplify(cond)
        if z3.is_true(cond):
            return True
        if z3.is_false(cond):
            return False
        key = cond.get_id()
        if key in self.decided:
            return self.decided[key]
        self.stats.decisions += 1
        if self.pos < len(self.decisions):
            d, h0, _v = self.decisions[self.pos]
            if h0 != h:
                raise PathAbort("divergence", "re-execution met a different branch condition than recorded (non-deterministic harness?)")
            self.pos += 1
        else:
            if len(self.decisions) >= self.max_decisions:
                raise PathAbort("bound", f"more than {self.max_decisions} decisions on one path")
            m = self._ensure_model()
            v = m.eval(cond, model_completion=True)
            if z3.is_true(v):
                d = True
            elif z3.is_false(v):
                d = False
            else:
                r, m2 = self._check(cond)
                if r == "unknown":
                    raise PathAbort("unknown", "branch feasibility")
                d = r == "sat"
                if d:
                    self.model = m2
            other = z3.Not(cond) if d else cond
            r, _ = self._check(other)
            if r == "unknown":
                # the other side cannot be decided: an inconclusive (lost) subtree
                self.stats.paths_aborted["unknown-branch"] = self.stats.paths_aborted.get("unknown-branch", 0) + 1
            elif r == "sat":
                self.pending.append(self.decisions + [(not d, h, int_value)])
            self.decisions.append((d, h, int_value))
            self.pos += 1
        c = cond if d else z3.Not(cond)
        self.pc.append(c)
        self.solver.add(c)
        self.decided[key] = d
        if self.model is not None and not self._model_true(c):
            self.model = None
        return d

    def concretize_int(self, ti) -> int:
        raw = ti
        val = self._concretize_int(ti)
        iv = z3.IntVal(val)
        for t in (raw, z3.simplify(raw)):
            if not z3.is_int_value(t):
                self.int_subst.append((t, iv))
        return val

    def _concretize_int(self, ti) -> int:
        ti = z3.simplify(ti)
        if z3.is_int_value(ti):
            return ti.as_long()
        for _ in range(self.max_int_fork):
            if self.pos < len(self.decisions) and self.decisions[self.pos][2] is not None:
                val = self.decisions[self.pos][2]  # replay: the value tried in the recorded run
            else:
                m = self._ensure_model()
                v = m.eval(ti, model_completion=True)
                if not z3.is_int_value(v):
                    raise PathAbort("unknown", "integer concretisation")
                val = v.as_long()
            cond = z3.simplify(ti == val)
            if z3.is_true(cond):
                return val
            if z3.is_false(cond):
                continue
            if cond.get_id() in self.decided:
                if self.decided[cond.get_id()]:
                    return val
                # already excluded on this path: ask for another value
                self.model = None
                r, m = self._check()
                if r != "sat":
                    raise PathAbort("unknown" if r == "unknown" else "infeasible", "integer concretisation")
                self.model = m
                continue
            if self.branch(cond, int_value=val):
                return val
        raise PathAbort("bound", f"integer takes more than {self.max_int_fork} values")

    # --- side conditions
    def assume_nonzero(self, t):
        k = t.get_id()
        if k in self.nonzero_seen:
            return
        self.nonzero_seen.add(k)
        self.stats.nonzero_assumed += 1
        self.add_assumption(t != 0)

    def fresh_sqrt(self, x: SymReal) -> SymReal:
        t = z3.simplify(x.t)
        k = t.get_id()
        if k in self.sqrt_cache:
            return self.sqrt_cache[k]
        self.fresh_n += 1
        r = z3.Real(f"_rho{self.fresh_n}")
        self.hidden.append(r)
        self.stats.sqrt_introduced += 1
        self.add_assumption(z3.And(r >= 0, r * r == t))
        d = None
        if x.d is not None:
            if x.d % 2 == 0:
                d = x.d // 2
            else:
                self.dim_violation("sqrt", (x,))
        res = SymReal(r, None, d)
        self.sqrt_cache[k] = res
        return res

    def fresh_root(self, x: SymReal, k: int) -> SymReal:
        """k-th root of a non-negative number: fresh rho >= 0 with rho**k = x"""
        t = z3.simplify(x.t)
        key = (t.get_id(), k)
        if key in self.sqrt_cache:
            return self.sqrt_cache[key]
        self.fresh_n += 1
        r = z3.Real(f"_root{k}_{self.fresh_n}")
        self.hidden.append(r)
        self.stats.sqrt_introduced += 1
        pw = r
        for _ in range(k - 1):
            pw = pw * r
        self.add_assumption(z3.And(r >= 0, pw == t))
        res = SymReal(r)
        self.sqrt_cache[key] = res
        return res

    def trig(self, x: SymReal):
        t = z3.simplify(x.t)
        k = t.get_id()
        if k in self.trig_cache:
            return self.trig_cache[k]
        if x.c is not None and x.c == 0:
            res = (SymReal.const(1), SymReal.const(0))
        else:
            c = z3.Function("uf_cos", z3.RealSort(), z3.RealSort())(t)
            s = z3.Function("uf_sin", z3.RealSort(), z3.RealSort())(t)
            self.add_assumption(c * c + s * s == 1)
            res = (SymReal(c), SymReal(s))
        self.trig_cache[k] = res
        return res


# ----------------------------------------------------------------------------- environments


class Obligation:
    __slots__ = ("name", "verdict", "time", "model", "detail", "smt", "path", "info")

    def __init__(self, name, verdict, time_s, model=None, detail=None, smt=None, path=None, info=False):
        self.name = name
        self.verdict = verdict
        self.time = time_s
        self.model = model
        self.detail = detail
        self.smt = smt
        self.path = path
        self.info = info

    def as_dict(self):
        return {k: getattr(self, k) for k in self.__slots__}


def _flatten_pairs(a, b):
    """yield (index, x, y) for broadcast elementwise comparison of arrays/scalars"""
    if isinstance(a, (list, tuple)):
        a = np.array(a, dtype=object)
    if isinstance(b, (list, tuple)):
        b = np.array(b, dtype=object)
    if isinstance(a, np.ndarray) or isinstance(b, np.ndarray):
        aa = np.asarray(a, dtype=object) if not isinstance(a, np.ndarray) else a
        bb = np.asarray(b, dtype=object) if not isinstance(b, np.ndarray) else b
        if aa.shape != bb.shape:
            aa, bb = np.broadcast_arrays(aa, bb)
        for idx in np.ndindex(*aa.shape):
            yield idx, aa[idx], bb[idx]
    else:
        yield (), a, b


class SymEnv:
    """symbolic-mode environment handed to scenarios"""

    sym = True

    def __init__(self, pctx: PathCtx, obligations: list, keep_smt=0):
        self.p = pctx
        self.obligations = obligations
        self.keep_smt = keep_smt
        self.notes: dict = {}
        self.observed: list = []
        self.exact_first_ms = 0  # scenarios with non-linear identities set this (ms)

    # --- inputs
    def real(self, name, lo=None, hi=None, lo_open=False, hi_open=False, dim=None):
        v = z3.Real(name)
        self.p.vars[name] = v
        if lo is not None:
            self.p.add_assumption(v > as_term(lo) if lo_open else v >= as_term(lo))
        if hi is not None:
            self.p.add_assumption(v < as_term(hi) if hi_open else v <= as_term(hi))
        if dim is not None:
            self.p.dim_tracked = True
        return SymReal(v, None, dim)

    def fixed(self, name, value, dim=None):
        """an input pinned to a concrete value; with ``dim`` it still carries its physical
        dimension, so the run type-checks homogeneity while the arithmetic stays linear"""
        if dim is not None:
            self.p.dim_tracked = True
        return SymReal.const(value, dim)

    def homogeneous(self, name="homogeneous"):
        """obligation: every operation executed so far on this path was dimensionally consistent,
        hence all observables are homogeneous functions of the dimensioned inputs"""
        st = self.p.stats
        st.obligations += 1
        if self.p.dim_tracked and not self.p.dim_violations:
            st.discharged += 1
            self.obligations.append(Obligation(name, "unsat", 0.0, detail="dimension tracking: no inconsistent operation", path=[bool(d[0]) for d in self.p.decisions[: self.p.pos]]))
            return True
        st.inconclusive += 1
        self.obligations.append(Obligation(name, "unknown", 0.0, detail="; ".join(self.p.dim_violations) or "dimensions not tracked", path=[bool(d[0]) for d in self.p.decisions[: self.p.pos]]))
        return False

    def integer(self, name, lo=None, hi=None):
        v = z3.Int(name)
        self.p.vars[name] = v
        if lo is not None:
            self.p.add_assumption(v >= lo)
        if hi is not None:
            self.p.add_assumption(v <= hi)
        return SymInt(v)

    def array(self, name, shape, lo=-8, hi=8, kind="real"):
        shape = (shape,) if isinstance(shape, int) else tuple(shape)
        a = np.empty(shape, dtype=object)
        for idx in np.ndindex(*shape):
            nm = name + "".join(f"_{i}" for i in idx)
            if kind == "complex":
                a[idx] = SymComplex(self.real(nm + "r", lo, hi), self.real(nm + "i", lo, hi))
            else:
                a[idx] = self.real(nm, lo, hi)
        return a

    def const(self, x):
        return SymReal.const(x)

    def nonlinear(self, on=True):
        """decide all further queries of this path on fresh solvers (nlsat);
        ``on="obligations"``: only the obligations (branch conditions stay on the incremental solver)"""
        if on == "obligations":
            self.p.fresh_obligations = True
            return
        self.p.fresh_mode = bool(on)

    def assume(self, cond):
        if isinstance(cond, (bool, np.bool_)):
            if not cond:
                raise PathAbort("infeasible", "assumption is concretely false")
            return
        self.p.add_assumption(as_bool_term(cond))

    # --- obligations
    def _discharge(self, name, claim_t, info=False, detail=None):
        st = self.p.stats
        if not info:
            st.obligations += 1
        t0 = time.time()
        neg = z3.Not(claim_t)
        saved_mode = self.p.fresh_mode
        if self.p.fresh_obligations:
            self.p.fresh_mode = True
        saved_info_to = None
        if info and self.p.query_timeout_ms > 5000:
            # informational obligations do not decide anything: small budget
            saved_info_to = self.p.query_timeout_ms
            self.p.query_timeout_ms = 5000
            self.p.solver.set("timeout", 5000)
        try:
            r, m = self.p._check(neg)
            if r == "unknown" and not info:
                # not(A and B) is satisfiable iff not(A) or not(B) is: decide the conjuncts one by one
                r, m = self._split_check(claim_t, 2)
                if r != "unknown":
                    detail = (detail + "," if detail else "") + "split"
            if r == "unknown" and not info:
                # last resort (a loaded machine makes borderline queries time out): once more with four times the budget
                saved_to = self.p.query_timeout_ms
                _arm_watchdog(getattr(self.p, "path_timeout", 120.0) + 8 * saved_to / 1000.0)  # the retry gets its own wall-time budget
                self.p.query_timeout_ms = saved_to * 4
                self.p.solver.set("timeout", saved_to * 4)
                try:
                    r, m = self.p._check(neg)
                finally:
                    self.p.query_timeout_ms = saved_to
                    self.p.solver.set("timeout", saved_to)
                if r != "unknown":
                    detail = (detail + "," if detail else "") + "retry-4x"
        finally:
            self.p.fresh_mode = saved_mode
            if saved_info_to is not None:
                self.p.query_timeout_ms = saved_info_to
                self.p.solver.set("timeout", saved_info_to)
        dt = time.time() - t0
        ob = Obligation(name, r, dt, info=info, detail=detail, path=[bool(d[0]) for d in self.p.decisions[: self.p.pos]])
        if r == "unsat":
            if not info:
                st.discharged += 1
        elif r == "sat":
            ob.model = {n: _model_value(m, v) for n, v in self.p.vars.items()}
        else:
            if not info:
                st.inconclusive += 1
        if self.keep_smt and (r != "unsat" or len([o for o in self.obligations if o.smt]) < self.keep_smt):
            s = z3.Solver()
            s.add(*self.p.assumptions)
            s.add(*self.p.pc)
            s.add(neg)
            txt = s.to_smt2()
            ob.smt = txt if len(txt) < 400000 else None
        self.obligations.append(ob)
        return r == "unsat"

    def _split_check(self, claim_t, depth):
        if not (z3.is_and(claim_t) and claim_t.num_args() > 1):
            return "unknown", None
        verdict = "unsat"
        for child in claim_t.children():
            r, m = self.p._check(z3.Not(child))
            if r == "unknown" and depth > 1:
                r, m = self._split_check(child, depth - 1)
            if r == "sat":
                return r, m
            if r == "unknown":
                verdict = "unknown"
        return verdict, None

    def prove(self, name, cond, info=False):
        if isinstance(cond, (bool, np.bool_)):
            cond_t = z3.BoolVal(bool(cond))
        else:
            cond_t = as_bool_term(cond)
        return self._discharge(name, cond_t, info=info)

    def close(self, name, a, b, scale=1, eps=EPS, info=False):
        """|a-b| <= eps*scale for every element"""
        cl = []
        exact = []
        tol = as_term(eps) * as_term(scale) if not isinstance(scale, SymReal) else as_term(eps) * scale.t
        for _idx, x, y in _flatten_pairs(a, b):
            xs, ys = V.terms_of(x), V.terms_of(y)
            if len(xs) != len(ys):
                if len(xs) == 1:
                    xs = xs + [z3.RealVal(0)]
                if len(ys) == 1:
                    ys = ys + [z3.RealVal(0)]
            for xt, yt in zip(xs, ys):
                d = z3.simplify(xt - yt)
                if z3.is_rational_value(d) and d.numerator_as_long() == 0:
                    continue
                cl.append(z3.And(d <= tol, -d <= tol))
                exact.append(d == 0)
        if cl and self.exact_first_ms and not info:
            # exact polynomial identities are decided much faster than their tolerance form
            saved = self.p.query_timeout_ms
            self.p.query_timeout_ms = self.exact_first_ms
            self.p.solver.set("timeout", self.exact_first_ms)
            r, _ = self.p._check(z3.Not(z3.And(*exact)))
            self.p.query_timeout_ms = saved
            self.p.solver.set("timeout", saved)
            if r == "unsat":
                st = self.p.stats
                st.obligations += 1
                st.discharged += 1
                self.obligations.append(Obligation(name, "unsat", 0.0, detail="exact", path=[bool(d[0]) for d in self.p.decisions[: self.p.pos]]))
                return True
        if not cl:
            # syntactically identical
            st = self.p.stats
            if not info:
                st.obligations += 1
                st.discharged += 1
            self.obligations.append(Obligation(name, "unsat", 0.0, detail="syntactic", info=info, path=[bool(d[0]) for d in self.p.decisions[: self.p.pos]]))
            return True
        ok = self._discharge(name, z3.And(*cl), info=info)
        if not ok and self.obligations and self.obligations[-1].verdict == "unknown" and self.obligations[-1].name == name:
            # polynomial identities of high degree (multi-stage schemes): z3's simplifier in sum-of-monomials mode
            # expands the differences; if every one of them cancels to 0 the claim holds identically
            try:
                zero = all(_is_zero(z3.simplify(z3.substitute(e.arg(0), *self.p.int_subst) if self.p.int_subst else e.arg(0), som=True)) for e in exact)
            except z3.Z3Exception:
                zero = False
            if zero:
                ob = self.obligations[-1]
                ob.verdict = "unsat"
                ob.detail = "identity (z3 simplify som=True)"
                if not info:
                    self.p.stats.inconclusive -= 1
                    self.p.stats.discharged += 1
                return True
        return ok

    def same(self, name, a, b, info=False):
        """exact equality of all elements (term level, decided by the solver)"""
        return self.close(name, a, b, eps=Fraction(0), info=info)

    def check_close(self, a, b, scale=1, eps=EPS, extra=None):
        """verdict ('unsat' = holds, 'sat', 'unknown') of |a-b| <= eps*scale without recording an obligation"""
        cl = []
        tol = as_term(eps) * as_term(scale)
        for _idx, x, y in _flatten_pairs(a, b):
            for xt, yt in zip(V.terms_of(x), V.terms_of(y)):
                d = z3.simplify(xt - yt)
                if z3.is_rational_value(d) and d.numerator_as_long() == 0:
                    continue
                cl.append(z3.And(d <= tol, -d <= tol))
        if not cl:
            return "unsat", None
        neg = z3.Not(z3.And(*cl))
        r, m = self.p._check(neg, *(extra or ()))
        return r, m

    def reach(self, name="reach", hints=()):
        """reachability twin: the path condition and assumptions must be satisfiable here

        ``hints`` are partial assignments {var: value} tried first when the plain query is too
        hard for the solver (a model under a hint is still a witness of reachability).
        """
        r = "unknown"
        for h in hints:
            extra = [self.p.vars[k] == as_term(v) for k, v in h.items() if k in self.p.vars]
            r, _ = self.p._check(*extra)
            if r == "sat":
                break
        if r != "sat":
            r, _ = self.p._check()
        if r == "sat":
            self.p.stats.reach_ok += 1
        else:
            self.p.stats.reach_fail += 1
            self.obligations.append(Obligation(name, "vacuous" if r == "unsat" else "unknown", 0.0, path=[bool(d[0]) for d in self.p.decisions[: self.p.pos]]))

    def note(self, key, value):
        self.notes[key] = value

    def observe(self, name, value):
        """register an observable for encoding validation against the JIT build"""
        self.observed.append((name, value))

    # conveniences shared with ConcEnv
    def is_true(self, cond):
        """evaluate a condition (forks in symbolic mode)"""
        return bool(cond)

    def value_of(self, x):
        return x


def _model_value(m, v):
    val = m.eval(v, model_completion=True)
    if z3.is_int_value(val):
        return str(val.as_long())
    if z3.is_rational_value(val):
        return f"{val.numerator_as_long()}/{val.denominator_as_long()}"
    if z3.is_algebraic_value(val):
        a = val.approx(30)
        return f"{a.numerator_as_long()}/{a.denominator_as_long()}"
    return str(val)


class ConcEnv:
    """concrete-mode environment: inputs from a model, obligations evaluated in floats"""

    sym = False

    def __init__(self, values: dict, eps_factor=0.5):
        self.values = values
        self.failed: list = []
        self.checked: list = []
        self.eps_factor = eps_factor
        self.notes: dict = {}
        self.observed: list = []
        self.exact_first_ms = 0

    def observe(self, name, value):
        self.observed.append((name, value))

    def _get(self, name, lo=None, hi=None):
        if name in self.values:
            return Fraction(self.values[name])
        # variable not mentioned in the model: any value inside the box
        lo_f = Fraction(lo) if lo is not None and not isinstance(lo, float) else (Fraction(lo) if lo is not None else None)
        hi_f = Fraction(hi) if hi is not None else None
        if lo_f is not None and hi_f is not None:
            return (lo_f + hi_f) / 2
        if lo_f is not None:
            return lo_f + 1
        if hi_f is not None:
            return hi_f - 1
        return Fraction(0)

    def real(self, name, lo=None, hi=None, lo_open=False, hi_open=False, dim=None):
        return float(self._get(name, lo, hi))

    def fixed(self, name, value, dim=None):
        return float(value)

    def homogeneous(self, name="homogeneous"):
        return True

    def integer(self, name, lo=None, hi=None):
        return int(self._get(name, lo, hi))

    def array(self, name, shape, lo=-8, hi=8, kind="real"):
        shape = (shape,) if isinstance(shape, int) else tuple(shape)
        a = np.empty(shape, dtype=complex if kind == "complex" else float)
        for idx in np.ndindex(*shape):
            nm = name + "".join(f"_{i}" for i in idx)
            if kind == "complex":
                a[idx] = complex(float(self._get(nm + "r", lo, hi)), float(self._get(nm + "i", lo, hi)))
            else:
                a[idx] = float(self._get(nm, lo, hi))
        return a

    def const(self, x):
        return float(x)

    def nonlinear(self, on=True):
        pass

    def assume(self, cond):
        if not bool(cond):
            raise PathAbort("infeasible", "assumption false in concrete replay")

    def prove(self, name, cond, info=False):
        ok = bool(cond)
        self.checked.append(name)
        if not ok and not info:
            self.failed.append({"name": name, "kind": "prove"})
        return ok

    def close(self, name, a, b, scale=1, eps=EPS, info=False):
        self.checked.append(name)
        worst = 0.0
        widx = None
        for idx, x, y in _flatten_pairs(a, b):
            d = abs(complex(x) - complex(y))
            if d > worst or math.isnan(d):
                worst, widx = d, idx
        tol = float(eps) * float(scale) * self.eps_factor
        ok = worst <= max(tol, 1e-11 * float(scale))
        if not ok and not info:
            self.failed.append({"name": name, "kind": "close", "deviation": worst, "index": list(widx or ()), "tol": tol})
        return ok

    def same(self, name, a, b, info=False):
        return self.close(name, a, b, eps=Fraction(1, 10**12), info=info)

    def check_close(self, a, b, scale=1, eps=EPS, extra=None):
        worst = 0.0
        for _idx, x, y in _flatten_pairs(a, b):
            worst = max(worst, abs(complex(x) - complex(y)))
        return ("unsat" if worst <= max(float(eps) * float(scale), 1e-11 * float(scale)) else "sat"), None

    def reach(self, name="reach", hints=()):
        pass

    def note(self, key, value):
        self.notes[key] = value

    def is_true(self, cond):
        return bool(cond)

    def value_of(self, x):
        return x


# ----------------------------------------------------------------------------- exploration driver


def _on_alarm(signum, frame):
    raise PathAbort("timeout", "single path exceeded its wall-time budget (non-terminating loop?)")


def _arm_watchdog(seconds):
    import signal
    import threading

    if threading.current_thread() is not threading.main_thread():
        return
    signal.signal(signal.SIGALRM, _on_alarm)
    signal.setitimer(signal.ITIMER_REAL, float(seconds))


class ExploreResult:
    def __init__(self):
        self.stats = Stats()
        self.obligations: list[Obligation] = []
        self.errors: list = []
        self.complete = True
        self.wall_s = 0.0
        self.notes: dict = {}
        self.path_samples: list = []
        self.validation_points: list = []


def _in_code_under_test(filename: str) -> bool:
    import pde

    root = os.path.dirname(os.path.abspath(pde.__file__))
    return os.path.abspath(filename).startswith(root + os.sep)


def explore(scenario, cfg, *, max_paths=2000, tmax=300.0, query_timeout_ms=20000, keep_smt=1, allowed_exceptions=(), max_decisions=400, max_int_fork=64, prefix=None, validate_paths=0, path_timeout=120.0) -> ExploreResult:
    """run ``scenario(env, cfg)`` on every feasible path (DFS over branch decisions)"""
    res = ExploreResult()
    t0 = time.time()
    stack = [list(prefix) if prefix else []]
    while stack:
        if res.stats.paths + sum(res.stats.paths_aborted.values()) >= max_paths or time.time() - t0 > tmax:
            res.complete = False
            break
        dec = stack.pop()
        p = PathCtx(dec, res.stats, query_timeout_ms=query_timeout_ms, max_decisions=max_decisions, max_int_fork=max_int_fork)
        p.path_timeout = path_timeout
        V._State.ctx = p
        obs: list = []
        env = SymEnv(p, obs, keep_smt=keep_smt if not any(o.smt for o in res.obligations) else 0)
        try:
            _arm_watchdog(path_timeout)
            scenario(env, cfg)
            _arm_watchdog(0)
            res.stats.paths += 1
            if len(res.validation_points) < validate_paths and env.observed:
                vp = _validation_point(p, env)
                if vp is not None:
                    res.validation_points.append(vp)
            if len(res.path_samples) < 3:
                res.path_samples.append({"decisions": [bool(d[0]) for d in p.decisions[: p.pos]], "pc_size": len(p.pc), "assumptions": len(p.assumptions), "pc_head": [str(c)[:160] for c in p.pc[:4]]})
        except PathAbort as e:
            res.stats.paths_aborted[e.kind] = res.stats.paths_aborted.get(e.kind, 0) + 1
            if e.kind != "infeasible":
                res.errors.append({"kind": "abort-" + e.kind, "msg": e.msg, "path": [bool(d[0]) for d in p.decisions[: p.pos]]})
        except allowed_exceptions as e:  # legitimate outcome declared by the harness
            res.stats.paths += 1
            res.notes.setdefault("allowed_exceptions", 0)
            res.notes["allowed_exceptions"] += 1
        except Exception as e:  # harness or code-under-test error on this path
            err = {"kind": "exception", "msg": f"{type(e).__name__}: {e}", "trace": traceback.format_exc()[-3000:], "path": [bool(d[0]) for d in p.decisions[: p.pos]], "exc_type": type(e).__name__}
            # raised by the code under test (innermost frame inside the pde package)?  Then a model of the path is kept so
            # that the runner can replay it on floats: an exception that reproduces there is a violation, not a harness fault
            tb = e.__traceback__
            while tb is not None and tb.tb_next is not None:
                tb = tb.tb_next
            fname = tb.tb_frame.f_code.co_filename if tb is not None else ""
            err["raised_in"] = fname
            if _in_code_under_test(fname):
                try:
                    _arm_watchdog(30)
                    m = p._ensure_model()
                    err["values"] = {n: _model_value(m, v) for n, v in p.vars.items()}
                except BaseException:  # noqa: BLE001 - no model: stays a harness error
                    pass
                finally:
                    _arm_watchdog(0)
            res.errors.append(err)
        finally:
            _arm_watchdog(0)
            V._State.ctx = None
        res.stats.max_pc = max(res.stats.max_pc, len(p.pc))
        res.obligations.extend(obs)
        for k, v in env.notes.items():
            res.notes.setdefault(k, v)
        stack.extend(p.pending)
    res.stats.left = len(stack)
    if stack or res.stats.paths_aborted.get("unknown-branch"):
        res.complete = False
    res.wall_s = time.time() - t0
    return res


def _flat_obs(value):
    """flatten an observable into a list of scalars"""
    if isinstance(value, np.ndarray):
        return list(value.flat)
    if isinstance(value, (list, tuple)):
        out = []
        for v in value:
            out.extend(_flat_obs(v))
        return out
    return [value]


def _has_uf(t):
    seen = set()
    stack = [t]
    while stack:
        x = stack.pop()
        if x.get_id() in seen:
            continue
        seen.add(x.get_id())
        if z3.is_app(x):
            if x.decl().kind() == z3.Z3_OP_UNINTERPRETED and x.num_args() > 0:
                return True
            stack.extend(x.children())
    return False


def _with_margin(c, eps, pos=True):
    """a formula implying `c` (or `not c` for pos=False) in which every inequality holds with a margin
    (validation points away from branch edges); negations are pushed inwards"""
    k = c.decl().kind() if z3.is_app(c) else None
    if k == z3.Z3_OP_NOT:
        return _with_margin(c.arg(0), eps, not pos)
    if k in (z3.Z3_OP_AND, z3.Z3_OP_OR):
        parts = [_with_margin(x, eps, pos) for x in c.children()]
        conj = (k == z3.Z3_OP_AND) == pos
        return z3.And(*parts) if conj else z3.Or(*parts)
    if k in (z3.Z3_OP_LE, z3.Z3_OP_LT, z3.Z3_OP_GE, z3.Z3_OP_GT) and c.num_args() == 2 and z3.is_real(c.arg(0)):
        x, y = c.arg(0), c.arg(1)
        less = k in (z3.Z3_OP_LE, z3.Z3_OP_LT)  # x <(=) y
        if not pos:
            less = not less
        return (y - x >= eps) if less else (x - y >= eps)
    return c if pos else z3.Not(c)


def _robust_model(p: PathCtx, eps=1e-4, timeout_ms=4000):
    """a model of the path in which every branch inequality holds with a margin: floats then take the same branches.
    None if there is none (paths that exist only on a tolerance edge) or the solver does not find one quickly"""
    try:
        s = z3.Solver()
        s.set("timeout", timeout_ms)
        s.add(*p.assumptions)
        e = z3.RealVal(Fraction(eps).limit_denominator(10**9))
        for c in p.pc:
            s.add(_with_margin(c, e))
        if _timed_check(s, timeout_ms) == "sat":
            return s.model()
    except z3.Z3Exception:
        pass
    return None


def _validation_point(p: PathCtx, env: SymEnv):
    """a concrete input on this path plus the values the symbolic terms take there"""
    robust = True
    m = _robust_model(p)
    if m is None:
        robust = False
        try:
            m = p._ensure_model()
        except PathAbort:
            return None
    values = {n: _model_value(m, v) for n, v in p.vars.items()}
    obs = {}
    for name, value in env.observed:
        out = []
        for x in _flat_obs(value):
            if isinstance(x, np.ndarray) and x.ndim == 0:
                x = x.item()
            if isinstance(x, SymComplex):
                xs = [x.re, x.im]
            else:
                xs = [x]
            for y in xs:
                if isinstance(y, SymReal):
                    if _has_uf(y.t):
                        out.append(None)
                    else:
                        out.append(_model_value(m, y.t))
                elif isinstance(y, SymBool):
                    out.append(str(z3.is_true(m.eval(y.t, model_completion=True))))
                elif isinstance(y, (bool, np.bool_)):
                    out.append(str(bool(y)))
                elif isinstance(y, (int, np.integer)):
                    out.append(str(int(y)))
                elif isinstance(y, (float, np.floating)):
                    out.append(repr(float(y)))
                elif isinstance(y, (complex, np.complexfloating)):
                    out.extend([repr(float(y.real)), repr(float(y.imag))])
                else:
                    out.append("obj:" + str(y))
        obs[name] = out
    return {"values": values, "observed": obs, "robust": robust}


def concrete_observables(scenario, cfg, values: dict):
    env = ConcEnv(values)
    err = None
    try:
        scenario(env, cfg)
    except PathAbort as e:
        err = f"abort: {e}"
    except Exception as e:
        err = f"{type(e).__name__}: {e}\n{traceback.format_exc()[-2000:]}"
    obs = {}
    for name, value in env.observed:
        out = []
        for y in _flat_obs(value):
            if isinstance(y, (bool, np.bool_)):
                out.append(str(bool(y)))
            elif isinstance(y, (int, np.integer)):
                out.append(str(int(y)))
            elif isinstance(y, (float, np.floating)):
                out.append(repr(float(y)))
            elif isinstance(y, (complex, np.complexfloating)):
                out.extend([repr(float(y.real)), repr(float(y.imag))])
            else:
                out.append("obj:" + str(y))
        obs[name] = out
    return obs, err


def run_concrete(scenario, cfg, values: dict):
    """replay mode: run the scenario on floats; returns (failed obligations, checked names, error)"""
    env = ConcEnv(values)
    err = None
    try:
        scenario(env, cfg)
    except PathAbort as e:
        err = f"abort: {e}"
    except Exception as e:
        err = f"{type(e).__name__}: {e}\n{traceback.format_exc()[-2000:]}"
        tb = e.__traceback__
        through_package = False
        while tb is not None:
            if _in_code_under_test(tb.tb_frame.f_code.co_filename):
                through_package = True
            tb = tb.tb_next
        if not through_package and type(e).__module__.startswith("numba"):
            # compile-time errors have no frame inside the package: numba quotes the source file it was compiling
            import re

            through_package = any(_in_code_under_test(os.path.abspath(m)) or "/pde/" in m or m.startswith("pde/") for m in re.findall(r'File "([^"]+)"', str(e)))
        if through_package:
            # the real code (or the compiler working on it) rejects an input of the scenario: recorded like a failed
            # obligation; the type may differ from the un-jitted run (numba reports e.g. a TypingError at compile time)
            env.failed.append({"name": f"no-exception:{type(e).__name__}", "kind": "exception", "msg": str(e)[:300]})
    return env.failed, env.checked, err, env.notes
