"""Symbolic scalars backed by z3 terms, usable as elements of ``dtype=object`` numpy arrays.

The real py-pde code is executed on these values (with ``NUMBA_DISABLE_JIT=1``); every
data-dependent branch goes through :meth:`SymBool.__bool__`, which asks the active path
context (:mod:`symx.explore`) which side to take.
"""

from __future__ import annotations

import builtins
import math
from fractions import Fraction

import numpy as np
import z3

_builtin_float = builtins.float
_builtin_int = builtins.int


class SymConcretisation(TypeError):
    """raised when real code forces a symbolic real into a C double"""


class _State:
    """process-global pointer to the active path context (set by symx.explore)"""

    ctx = None


def ctx():
    c = _State.ctx
    if c is None:
        raise RuntimeError("symbolic value used outside of an exploration context")
    return c


# ----------------------------------------------------------------------------- lifting


def _frac(x) -> Fraction | None:
    """exact rational value of a concrete python/numpy real number (None if not a number)"""
    if isinstance(x, (bool, np.bool_)):
        return Fraction(int(x))
    if isinstance(x, (int, np.integer)):
        return Fraction(int(x))
    if isinstance(x, (float, np.floating)):
        xf = _builtin_float(x)
        if math.isinf(xf) or math.isnan(xf):
            return None
        return Fraction(xf)
    if isinstance(x, Fraction):
        return x
    if isinstance(x, np.ndarray) and x.ndim == 0:
        return _frac(x.item())
    return None


def qval(f: Fraction):
    return z3.RealVal(f.numerator) if f.denominator == 1 else z3.Q(f.numerator, f.denominator)


def is_sym(x) -> bool:
    return isinstance(x, (SymReal, SymBool, SymComplex))


def as_term(x):
    """z3 real term of a SymReal or concrete number"""
    if isinstance(x, SymReal):
        return x.t
    f = _frac(x)
    if f is None:
        raise TypeError(f"cannot lift {x!r} to a z3 real")
    return qval(f)


def as_bool_term(x):
    if isinstance(x, SymBool):
        return x.t
    if isinstance(x, z3.BoolRef):
        return x
    if isinstance(x, (bool, np.bool_)):
        return z3.BoolVal(bool(x))
    raise TypeError(f"cannot lift {x!r} to a z3 bool")


# ----------------------------------------------------------------------------- SymBool


class SymBool:
    __slots__ = ("t",)
    __array_priority__ = 1000

    def __init__(self, t):
        self.t = t

    def __bool__(self):
        return ctx().branch(self.t)

    def __and__(self, o):
        return SymBool(z3.And(self.t, as_bool_term(o)))

    __rand__ = __and__

    def __or__(self, o):
        return SymBool(z3.Or(self.t, as_bool_term(o)))

    __ror__ = __or__

    def __invert__(self):
        return SymBool(z3.Not(self.t))

    def __xor__(self, o):
        return SymBool(z3.Xor(self.t, as_bool_term(o)))

    __rxor__ = __xor__

    def __repr__(self):
        return f"B({self.t})"


def sym_and(*xs):
    ts = [as_bool_term(x) for x in xs]
    return SymBool(z3.And(*ts)) if ts else SymBool(z3.BoolVal(True))


def sym_or(*xs):
    ts = [as_bool_term(x) for x in xs]
    return SymBool(z3.Or(*ts)) if ts else SymBool(z3.BoolVal(False))


def sym_not(x):
    return SymBool(z3.Not(as_bool_term(x)))


def sym_if(c, a, b):
    """term-level if-then-else on reals (no fork)"""
    if isinstance(c, (bool, np.bool_)):
        return a if c else b
    a = a if isinstance(a, SymReal) else SymReal.const(a)
    b = b if isinstance(b, SymReal) else SymReal.const(b)
    return SymReal(z3.If(as_bool_term(c), a.t, b.t), None, _d_same(a, b, "if"))


# ----------------------------------------------------------------------------- SymReal


def _dim_violation(what, *xs):
    c = _State.ctx
    if c is not None:
        c.dim_violation(what, xs)


def _d_same(a, b, what):
    if a.d is None:
        return b.d
    if b.d is None:
        return a.d
    if a.d != b.d:
        _dim_violation(what, a, b)
        return None
    return a.d


def _d_mul(a, b, sign):
    if a.d is None or b.d is None:
        return None
    return a.d + sign * b.d


def _d_dimless(a, what):
    if a.d is not None and a.d != 0:
        _dim_violation(what, a)


def _infcmp(o):
    return isinstance(o, (float, np.floating)) and math.isinf(_builtin_float(o))


class SymReal:
    """a real number given by a z3 term; ``c`` caches the exact value of constants"""

    __slots__ = ("t", "c", "d")
    __array_priority__ = 1000
    __hash__ = None  # type: ignore[assignment]

    # --- the small part of the numpy scalar API that py-pde relies on
    shape = ()
    ndim = 0
    size = 1
    dtype = np.dtype(object)

    def __init__(self, t, c: Fraction | None = None, d=None):
        self.t = t
        self.c = c
        # physical dimension (power of the time unit) for homogeneity tracking; None = untracked
        # or polymorphic (the constant 0); non-zero constants are dimensionless
        self.d = d if (c is None or d is not None) else (None if c == 0 else 0)

    @staticmethod
    def const(x, d=None) -> "SymReal":
        f = _frac(x)
        if f is None:
            raise TypeError(f"not a finite real constant: {x!r}")
        return SymReal(qval(f), f, d)

    @staticmethod
    def var(name: str, d=None) -> "SymReal":
        return SymReal(z3.Real(name), None, d)

    # --- numpy protocol
    def __array_ufunc__(self, ufunc, method, *inputs, out=None, **kw):
        special = _UFUNC_SPECIAL.get(ufunc.__name__)
        if special is not None and method == "__call__" and out is None:
            return special(*inputs, **kw)
        conv = [np.asarray(x, dtype=object) if isinstance(x, (SymReal, SymComplex)) else x for x in inputs]
        if out is not None:
            kw["out"] = out
        res = getattr(ufunc, method)(*conv, **kw)
        if isinstance(res, np.ndarray) and res.ndim == 0 and res.dtype == object:
            return res.item()
        return res

    def __getitem__(self, idx):
        res = np.array(self, dtype=object)[idx]
        if isinstance(res, np.ndarray) and res.ndim == 0:
            return res.item()
        return res

    __iter__ = None  # like numpy scalars: not iterable (``a, b = radius`` must raise TypeError)

    def item(self):
        return self

    def copy(self):
        return self

    def astype(self, dtype, **kw):
        return self

    def conjugate(self):
        return self

    conj = conjugate

    @property
    def real(self):
        return self

    @property
    def imag(self):
        return SymReal.const(0)

    @property
    def T(self):
        return self

    def squeeze(self):
        return self

    def __complex__(self):
        raise SymConcretisation("complex() of a symbolic real")

    def __float__(self):
        if self.c is not None:
            return _builtin_float(self.c)
        raise SymConcretisation(f"float() of symbolic real {self!r}")

    # --- arithmetic
    def _coerce(self, o):
        """returns SymReal, or None (not a number), or the float inf/nan itself"""
        if isinstance(o, SymReal):
            return o
        f = _frac(o)
        if f is not None:
            return SymReal(qval(f), f)
        return None

    def _arr(self, o, fn):
        out = np.empty(o.shape, dtype=object)
        for idx in np.ndindex(*o.shape):
            out[idx] = fn(o[idx])
        return out

    def __add__(self, o):
        if isinstance(o, np.ndarray):
            return self._arr(o, self.__add__)
        if isinstance(o, SymComplex):
            return SymComplex(self + o.re, o.im)
        if isinstance(o, complex):
            return SymComplex(self, SymReal.const(0)) + o
        b = self._coerce(o)
        if b is None:
            if _infcmp(o):
                return _builtin_float(o)
            return NotImplemented
        a = self
        if a.c is not None and b.c is not None:
            return SymReal.const(a.c + b.c, _d_same(a, b, "+"))
        if a.c == 0 and not a.d:
            return b
        if b.c == 0 and not b.d:
            return a
        return SymReal(a.t + b.t, None, _d_same(a, b, "+"))

    __radd__ = __add__

    def __sub__(self, o):
        if isinstance(o, np.ndarray):
            return self._arr(o, self.__sub__)
        if isinstance(o, (SymComplex, complex)):
            return SymComplex(self, SymReal.const(0)) - o
        b = self._coerce(o)
        if b is None:
            if _infcmp(o):
                return -_builtin_float(o)
            return NotImplemented
        a = self
        if a.c is not None and b.c is not None:
            return SymReal.const(a.c - b.c, _d_same(a, b, "-"))
        if b.c == 0 and not b.d:
            return a
        if a.c == 0 and not a.d:
            return -b
        return SymReal(a.t - b.t, None, _d_same(a, b, "-"))

    def __rsub__(self, o):
        if isinstance(o, np.ndarray):
            return self._arr(o, self.__rsub__)
        if isinstance(o, (SymComplex, complex)):
            return o - SymComplex(self, SymReal.const(0))
        b = self._coerce(o)
        if b is None:
            if _infcmp(o):
                return _builtin_float(o)
            return NotImplemented
        return SymReal.__sub__(b, self)  # explicit: ``b - self`` would re-enter a subclass's __rsub__

    def __mul__(self, o):
        if isinstance(o, np.ndarray):
            return self._arr(o, self.__mul__)
        if isinstance(o, SymComplex):
            return SymComplex(self * o.re, self * o.im)
        if isinstance(o, complex):
            return SymComplex(self * o.real, self * o.imag)
        b = self._coerce(o)
        if b is None:
            return NotImplemented
        a = self
        dd = _d_mul(a, b, 1)
        if a.c is not None and b.c is not None:
            return SymReal.const(a.c * b.c, dd)
        if a.c == 0 or b.c == 0:
            return SymReal.const(0, dd)
        if a.c is not None:
            if a.c == 1:
                return b if not a.d else SymReal(b.t, None, dd)
            if a.c == -1:
                return SymReal(-b.t, None, dd)
            return SymReal(a.t * b.t, None, dd)
        if b.c is not None:
            if b.c == 1:
                return a if not b.d else SymReal(a.t, None, dd)
            if b.c == -1:
                return SymReal(-a.t, None, dd)
        return SymReal(a.t * b.t, None, dd)

    __rmul__ = __mul__

    def __truediv__(self, o):
        if isinstance(o, np.ndarray):
            return self._arr(o, self.__truediv__)
        if isinstance(o, (SymComplex, complex)):
            return SymComplex(self, SymReal.const(0)) / o
        b = self._coerce(o)
        if b is None:
            if _infcmp(o):
                return SymReal.const(0)
            return NotImplemented
        a = self
        dd = _d_mul(a, b, -1)
        if b.c is not None:
            if b.c == 0:
                raise ZeroDivisionError("symbolic real divided by constant zero")
            if a.c is not None:
                return SymReal.const(a.c / b.c, dd)
            if b.c == 1:
                return a if not b.d else SymReal(a.t, None, dd)
            return SymReal(a.t * qval(1 / b.c), None, dd)
        ctx().assume_nonzero(b.t)
        if a.c == 0:
            return SymReal.const(0, dd)
        if a.c is None and a.t.eq(b.t):
            return SymReal.const(1, dd)  # x / x with x != 0 (recorded above)
        return SymReal(a.t / b.t, None, dd)

    def __rtruediv__(self, o):
        if isinstance(o, np.ndarray):
            return self._arr(o, self.__rtruediv__)
        if isinstance(o, (SymComplex, complex)):
            return o / SymComplex(self, SymReal.const(0))
        b = self._coerce(o)
        if b is None:
            return NotImplemented
        return b / self

    def __floordiv__(self, o):
        b = self._coerce(o)
        if b is None:
            return NotImplemented
        return (self / b).floor()

    def __rfloordiv__(self, o):
        b = self._coerce(o)
        if b is None:
            return NotImplemented
        return (b / self).floor()

    def __mod__(self, o):
        b = self._coerce(o)
        if b is None:
            return NotImplemented
        # python semantics: result has the sign of the divisor: a - b*floor(a/b)
        return self - b * (self / b).floor()

    def __rmod__(self, o):
        b = self._coerce(o)
        if b is None:
            return NotImplemented
        return b % self

    def __divmod__(self, o):
        b = self._coerce(o)
        if b is None:
            return NotImplemented
        q = (self / b).floor()
        return q, self - b * q

    def __neg__(self):
        if self.c is not None:
            return SymReal.const(-self.c, self.d)
        return SymReal(-self.t, None, self.d)

    def __pos__(self):
        return self

    def __abs__(self):
        if self.c is not None:
            return SymReal.const(abs(self.c), self.d)
        return SymReal(z3.If(self.t >= 0, self.t, -self.t), None, self.d)

    def __pow__(self, n):
        if isinstance(n, np.ndarray):
            return self._arr(n, self.__pow__)
        if isinstance(n, SymReal):
            if n.c is None:
                return _uf("pow", self, n)
            n = n.c
        if isinstance(n, (float, np.floating)):
            n = Fraction(_builtin_float(n))
        if isinstance(n, (int, np.integer)):
            n = Fraction(int(n))
        if isinstance(n, Fraction):
            if n.denominator == 1:
                k = n.numerator
                if self.c is not None and (k >= 0 or self.c != 0):
                    return SymReal.const(self.c**k, None if self.d is None else self.d * k)
                if k == 0:
                    return SymReal.const(1)
                r = self
                for _ in range(abs(k) - 1):
                    r = r * self
                return r if k > 0 else 1 / r
            if n.denominator == 2:
                r = self.sqrt()
                return r ** n.numerator
            # x ** (1/k) written as a float (e.g. 1/3): k-th root of a non-negative number
            for k in (3, 4, 5, 6):
                if abs(float(n) - 1.0 / k) < 1e-15:
                    return ctx().fresh_root(self, k)
            return _uf("pow", self, SymReal.const(n))
        return NotImplemented

    def __rpow__(self, b):
        base = self._coerce(b)
        if base is None:
            return NotImplemented
        if self.c is not None:
            return base**self.c
        return _uf("pow", base, self)

    # --- comparisons
    def _cmp(self, o, op, inf_pos, inf_neg):
        if isinstance(o, np.ndarray):
            out = np.empty(o.shape, dtype=object)
            for idx in np.ndindex(*o.shape):
                out[idx] = self._cmp(o[idx], op, inf_pos, inf_neg)
            return out
        b = self._coerce(o)
        if b is None:
            if _infcmp(o):
                return inf_pos if o > 0 else inf_neg
            if isinstance(o, (float, np.floating)) and math.isnan(_builtin_float(o)):
                return op == "ne"
            return NotImplemented
        a = self
        if a.c is not None and b.c is not None:
            _d_same(a, b, op)
            return {"lt": a.c < b.c, "le": a.c <= b.c, "gt": a.c > b.c, "ge": a.c >= b.c, "eq": a.c == b.c, "ne": a.c != b.c}[op]
        _d_same(a, b, op)
        x, y = a.t, b.t
        t = {"lt": x < y, "le": x <= y, "gt": x > y, "ge": x >= y, "eq": x == y, "ne": x != y}[op]
        return SymBool(t)

    def __lt__(self, o):
        return self._cmp(o, "lt", True, False)

    def __le__(self, o):
        return self._cmp(o, "le", True, False)

    def __gt__(self, o):
        return self._cmp(o, "gt", False, True)

    def __ge__(self, o):
        return self._cmp(o, "ge", False, True)

    def __eq__(self, o):
        r = self._cmp(o, "eq", False, False)
        return False if r is NotImplemented else r

    def __ne__(self, o):
        r = self._cmp(o, "ne", True, True)
        return True if r is NotImplemented else r

    # --- rounding
    def floor(self):
        _d_dimless(self, "floor")
        if self.c is not None:
            return SymInt.const(math.floor(self.c))
        return SymInt(z3.ToInt(self.t))

    def ceil(self):
        _d_dimless(self, "ceil")
        if self.c is not None:
            return SymInt.const(math.ceil(self.c))
        return SymInt(-z3.ToInt(-self.t))

    __floor__ = floor
    __ceil__ = ceil

    def __trunc__(self):
        _d_dimless(self, "trunc")
        if self.c is not None:
            return SymInt.const(math.trunc(self.c))
        return SymInt(z3.If(self.t >= 0, z3.ToInt(self.t), -z3.ToInt(-self.t)))

    def __round__(self, nd=None):
        if nd is not None:
            raise NotImplementedError("round(x, ndigits) on a symbolic real")
        _d_dimless(self, "round")
        if self.c is not None:
            return SymInt.const(round(self.c))
        x = self.t
        fl = z3.ToInt(x)
        frac = x - z3.ToReal(fl)
        half = z3.Q(1, 2)
        return SymInt(z3.If(frac < half, fl, z3.If(frac > half, fl + 1, z3.If(fl % 2 == 0, fl, fl + 1))))

    def rint(self):
        return SymReal(self.__round__().t)

    def __int__(self):
        return self.__trunc__().__int__()

    def __bool__(self):
        r = self != 0
        return bool(r)

    # --- elementary functions (numpy calls these methods for object arrays)
    def sqrt(self):
        if self.c is not None and self.c >= 0 and not self.d:
            num, den = self.c.numerator, self.c.denominator
            rn, rd = math.isqrt(num), math.isqrt(den)
            if rn * rn == num and rd * rd == den:
                return SymReal.const(Fraction(rn, rd))
        return ctx().fresh_sqrt(self)

    def hypot(self, o):
        return (self * self + o * o).sqrt()

    def square(self):
        return self * self

    def exp(self):
        return _uf("exp", self)

    def log(self):
        return _uf("log", self)

    def log10(self):
        return _uf("log10", self)

    def log2(self):
        return _uf("log2", self)

    def sin(self):
        return ctx().trig(self)[1]

    def cos(self):
        return ctx().trig(self)[0]

    def tan(self):
        c, s = ctx().trig(self)
        return s / c

    def tanh(self):
        return _uf("tanh", self)

    def sinh(self):
        return _uf("sinh", self)

    def cosh(self):
        return _uf("cosh", self)

    def arctan(self):
        return _uf("arctan", self)

    def arcsin(self):
        return _uf("arcsin", self)

    def arccos(self):
        return _uf("arccos", self)

    def arctan2(self, x):
        return _uf("arctan2", self, SymReal.const(x) if not isinstance(x, SymReal) else x)

    def sign(self):
        return SymReal(z3.If(self.t > 0, z3.RealVal(1), z3.If(self.t < 0, z3.RealVal(-1), z3.RealVal(0))), None, None if self.d is None else 0)

    def __repr__(self):
        s = str(self.t)
        return f"S({s if len(s) < 80 else s[:77] + '...'})"


def _uf(name: str, *args) -> SymReal:
    """uninterpreted real function (congruence only)"""
    for a in args:
        if isinstance(a, SymReal):
            _d_dimless(a, name)
    ts = [as_term(a) for a in args]
    f = z3.Function("uf_" + name, *([z3.RealSort()] * (len(ts) + 1)))
    return SymReal(f(*ts))


# ----------------------------------------------------------------------------- SymInt


class SymInt(SymReal):
    """integer-valued symbolic number; concretised by forking where python needs an int"""

    __slots__ = ("ti",)

    def __init__(self, ti, c: int | None = None):
        self.ti = ti
        SymReal.__init__(self, z3.ToReal(ti) if c is None else z3.RealVal(c), None if c is None else Fraction(c), 0)

    @staticmethod
    def const(v: int) -> "SymInt":
        return SymInt(z3.IntVal(int(v)), int(v))

    @staticmethod
    def var(name: str) -> "SymInt":
        return SymInt(z3.Int(name))

    def _icoerce(self, o):
        if isinstance(o, SymInt):
            return o
        if isinstance(o, (bool, np.bool_, int, np.integer)):
            return SymInt.const(int(o))
        return None

    def __add__(self, o):
        b = self._icoerce(o)
        if b is None:
            return SymReal.__add__(self, o)
        if self.c is not None and b.c is not None:
            return SymInt.const(int(self.c + b.c))
        return SymInt(self.ti + b.ti)

    __radd__ = __add__

    def __sub__(self, o):
        b = self._icoerce(o)
        if b is None:
            return SymReal.__sub__(self, o)
        if self.c is not None and b.c is not None:
            return SymInt.const(int(self.c - b.c))
        return SymInt(self.ti - b.ti)

    def __rsub__(self, o):
        b = self._icoerce(o)
        if b is None:
            return SymReal.__rsub__(self, o)
        return b - self

    def __mul__(self, o):
        b = self._icoerce(o)
        if b is None:
            return SymReal.__mul__(self, o)
        if self.c is not None and b.c is not None:
            return SymInt.const(int(self.c * b.c))
        return SymInt(self.ti * b.ti)

    __rmul__ = __mul__

    def __neg__(self):
        if self.c is not None:
            return SymInt.const(-int(self.c))
        return SymInt(-self.ti)

    def __floordiv__(self, o):
        b = self._icoerce(o)
        if b is None:
            return SymReal.__floordiv__(self, o)
        if b.c is not None and b.c > 0:
            return SymInt(self.ti / b.ti)  # z3 int div = floor for positive divisor
        return SymReal.__floordiv__(self, o)

    def __mod__(self, o):
        b = self._icoerce(o)
        if b is None:
            return SymReal.__mod__(self, o)
        if b.c is not None and b.c > 0:
            return SymInt(self.ti % b.ti)
        return SymReal.__mod__(self, o)

    def __abs__(self):
        if self.c is not None:
            return SymInt.const(abs(int(self.c)))
        return SymInt(z3.If(self.ti >= 0, self.ti, -self.ti))

    def floor(self):
        return self

    ceil = floor
    __floor__ = floor
    __ceil__ = floor
    __trunc__ = floor

    def __round__(self, nd=None):
        return self

    def concretize(self) -> int:
        if self.c is not None:
            return int(self.c)
        return ctx().concretize_int(self.ti)

    def __index__(self):
        return self.concretize()

    __int__ = __index__

    def __repr__(self):
        return f"I({self.ti})"


# ----------------------------------------------------------------------------- SymComplex


class SymComplex:
    """complex number with symbolic real and imaginary parts"""

    __slots__ = ("re", "im")
    __array_priority__ = 1001
    __hash__ = None  # type: ignore[assignment]
    shape = ()
    ndim = 0
    size = 1
    dtype = np.dtype(object)

    def __init__(self, re, im):
        self.re = re if isinstance(re, SymReal) else SymReal.const(re)
        self.im = im if isinstance(im, SymReal) else SymReal.const(im)

    __array_ufunc__ = SymReal.__array_ufunc__
    __getitem__ = SymReal.__getitem__

    @staticmethod
    def _co(o):
        if isinstance(o, SymComplex):
            return o
        if isinstance(o, SymReal):
            return SymComplex(o, SymReal.const(0))
        if isinstance(o, (complex, np.complexfloating)):
            return SymComplex(SymReal.const(o.real), SymReal.const(o.imag))
        f = _frac(o)
        if f is not None:
            return SymComplex(SymReal.const(f), SymReal.const(0))
        return None

    def _arr(self, o, fn):
        out = np.empty(o.shape, dtype=object)
        for idx in np.ndindex(*o.shape):
            out[idx] = fn(o[idx])
        return out

    def __add__(self, o):
        if isinstance(o, np.ndarray):
            return self._arr(o, self.__add__)
        b = self._co(o)
        if b is None:
            return NotImplemented
        return SymComplex(self.re + b.re, self.im + b.im)

    __radd__ = __add__

    def __sub__(self, o):
        if isinstance(o, np.ndarray):
            return self._arr(o, self.__sub__)
        b = self._co(o)
        if b is None:
            return NotImplemented
        return SymComplex(self.re - b.re, self.im - b.im)

    def __rsub__(self, o):
        if isinstance(o, np.ndarray):
            return self._arr(o, self.__rsub__)
        b = self._co(o)
        if b is None:
            return NotImplemented
        return b - self

    def __mul__(self, o):
        if isinstance(o, np.ndarray):
            return self._arr(o, self.__mul__)
        b = self._co(o)
        if b is None:
            return NotImplemented
        return SymComplex(self.re * b.re - self.im * b.im, self.re * b.im + self.im * b.re)

    __rmul__ = __mul__

    def __truediv__(self, o):
        if isinstance(o, np.ndarray):
            return self._arr(o, self.__truediv__)
        b = self._co(o)
        if b is None:
            return NotImplemented
        if b.im.c == 0:
            return SymComplex(self.re / b.re, self.im / b.re)
        den = b.re * b.re + b.im * b.im
        num = self * b.conjugate()
        return SymComplex(num.re / den, num.im / den)

    def __rtruediv__(self, o):
        b = self._co(o)
        if b is None:
            return NotImplemented
        return b / self

    def __neg__(self):
        return SymComplex(-self.re, -self.im)

    def __pos__(self):
        return self

    def __pow__(self, n):
        if isinstance(n, (int, np.integer)) and n >= 0:
            r = SymComplex(SymReal.const(1), SymReal.const(0))
            for _ in range(int(n)):
                r = r * self
            return r
        return NotImplemented

    def conjugate(self):
        return SymComplex(self.re, -self.im)

    conj = conjugate

    @property
    def real(self):
        return self.re

    @property
    def imag(self):
        return self.im

    def __abs__(self):
        return (self.re * self.re + self.im * self.im).sqrt()

    def __eq__(self, o):
        b = self._co(o)
        if b is None:
            return False
        return sym_and(self.re == b.re, self.im == b.im)

    def __ne__(self, o):
        return sym_not(self == o)

    def item(self):
        return self

    def copy(self):
        return self

    def __repr__(self):
        return f"C({self.re!r}, {self.im!r})"


# ----------------------------------------------------------------------------- ufuncs without object loops


def _elementwise(fn):
    def wrapped(x, *a, **k):
        if isinstance(x, np.ndarray):
            out = np.empty(x.shape, dtype=object if x.dtype == object else None)
            for idx in np.ndindex(*x.shape):
                out[idx] = fn(x[idx])
            return out
        return fn(x)

    return wrapped


def _isfinite(x):
    if isinstance(x, (SymReal, SymComplex)):
        return True
    return bool(np.isfinite(x))


def _isnan(x):
    if isinstance(x, (SymReal, SymComplex)):
        return False
    return bool(np.isnan(x))


def _heaviside(x, h0=0.5):
    def one(xx, hh):
        if not isinstance(xx, SymReal):
            if isinstance(hh, SymReal):
                xx = SymReal.const(xx)
            else:
                return np.heaviside(xx, hh)
        return SymReal(z3.If(xx.t < 0, z3.RealVal(0), z3.If(xx.t > 0, z3.RealVal(1), as_term(hh))))

    if isinstance(x, np.ndarray) or isinstance(h0, np.ndarray):
        xb, hb = np.broadcast_arrays(np.asarray(x, dtype=object), np.asarray(h0, dtype=object))
        out = np.empty(xb.shape, dtype=object)
        for idx in np.ndindex(*xb.shape):
            out[idx] = one(xb[idx], hb[idx])
        return out
    return one(x, h0)


def _sym_minmax(is_max):
    def one(a, b):
        if not isinstance(a, SymReal) and not isinstance(b, SymReal):
            return max(a, b) if is_max else min(a, b)
        a = a if isinstance(a, SymReal) else SymReal.const(a)
        b = b if isinstance(b, SymReal) else SymReal.const(b)
        if a.c is not None and b.c is not None:
            return SymReal.const(max(a.c, b.c) if is_max else min(a.c, b.c))
        cond = a.t >= b.t if is_max else a.t <= b.t
        return SymReal(z3.If(cond, a.t, b.t))

    def fn(a, b, **kw):
        if isinstance(a, np.ndarray) or isinstance(b, np.ndarray):
            ab, bb = np.broadcast_arrays(np.asarray(a, dtype=object), np.asarray(b, dtype=object))
            out = np.empty(ab.shape, dtype=object)
            for idx in np.ndindex(*ab.shape):
                out[idx] = one(ab[idx], bb[idx])
            return out
        return one(a, b)

    return fn


def _binary_lifted(name):
    def one(a, b):
        if not isinstance(a, SymReal) and not isinstance(b, SymReal):
            return getattr(np, name)(a, b)
        a = a if isinstance(a, SymReal) else SymReal.const(a)
        return getattr(a, name)(b)

    def fn(a, b, **kw):
        if isinstance(a, np.ndarray) or isinstance(b, np.ndarray):
            ab, bb = np.broadcast_arrays(np.asarray(a, dtype=object), np.asarray(b, dtype=object))
            out = np.empty(ab.shape, dtype=object)
            for idx in np.ndindex(*ab.shape):
                out[idx] = one(ab[idx], bb[idx])
            return out
        return one(a, b)

    return fn


_UFUNC_SPECIAL = {
    "hypot": _binary_lifted("hypot"),
    "arctan2": _binary_lifted("arctan2"),
    "isfinite": _elementwise(_isfinite),
    "isnan": _elementwise(_isnan),
    "isinf": _elementwise(lambda x: False if isinstance(x, (SymReal, SymComplex)) else bool(np.isinf(x))),
    "heaviside": _heaviside,
    "sign": _elementwise(lambda x: x.sign() if isinstance(x, SymReal) else np.sign(x)),
    "fabs": _elementwise(abs),
    "absolute": _elementwise(abs),
    "floor": _elementwise(lambda x: SymReal(x.floor().t) if isinstance(x, SymReal) else np.floor(x)),
    "ceil": _elementwise(lambda x: SymReal(x.ceil().t) if isinstance(x, SymReal) else np.ceil(x)),
    "rint": _elementwise(lambda x: x.rint() if isinstance(x, SymReal) else np.rint(x)),
    "maximum": _sym_minmax(True),
    "minimum": _sym_minmax(False),
    "fmax": _sym_minmax(True),
    "fmin": _sym_minmax(False),
}


# ----------------------------------------------------------------------------- builtin shadows


class _FloatMeta(type):
    def __instancecheck__(cls, obj):
        return isinstance(obj, _builtin_float)

    def __subclasscheck__(cls, sub):
        return issubclass(sub, _builtin_float)


class symfloat(_builtin_float, metaclass=_FloatMeta):
    """drop-in for the builtin ``float`` inside target modules: identity on symbolic reals"""

    def __new__(cls, x=0.0):
        if isinstance(x, SymReal):
            return x
        if isinstance(x, np.ndarray) and x.dtype == object and x.ndim == 0 and isinstance(x.item(), SymReal):
            return x.item()
        return _builtin_float(x)


def install_float_shadow(*modules):
    for m in modules:
        m.float = symfloat


# ----------------------------------------------------------------------------- arrays


def sym_array(name: str, shape, kind="real") -> np.ndarray:
    """object array filled with fresh variables ``name_i_j``"""
    shape = tuple(shape) if not isinstance(shape, int) else (shape,)
    a = np.empty(shape, dtype=object)
    for idx in np.ndindex(*shape):
        nm = name + "".join(f"_{i}" for i in idx)
        if kind == "complex":
            a[idx] = SymComplex(SymReal.var(nm + "r"), SymReal.var(nm + "i"))
        else:
            a[idx] = SymReal.var(nm)
    return a


def terms_of(a) -> list:
    """flat list of z3 real terms of an array / scalar of SymReal (complex → re, im)"""
    out = []
    if isinstance(a, np.ndarray):
        for x in a.flat:
            out.extend(terms_of(x))
        return out
    if isinstance(a, (list, tuple)):
        for x in a:
            out.extend(terms_of(x))
        return out
    if isinstance(a, SymComplex):
        return [a.re.t, a.im.t]
    if isinstance(a, (complex, np.complexfloating)):
        return [as_term(a.real), as_term(a.imag)]
    return [as_term(a)]
