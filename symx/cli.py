"""command line: ./run check <ID> [--tier quick|thorough] [--only REGEX] | ./run replay <file>"""

from __future__ import annotations

import argparse
import json
import os
import sys
from pathlib import Path


def main(argv=None) -> int:
    argv = list(sys.argv[1:] if argv is None else argv)
    if not argv:
        print("usage: check <ID> | replay <file>")
        return 2
    cmd = argv.pop(0)
    if cmd == "_conc":
        from .runner import conc_main

        return conc_main(argv[0])
    if cmd == "_concval":
        from .runner import concval_main

        return concval_main(argv[0])
    if cmd == "replay":
        from .runner import run_replay_file

        res = run_replay_file(Path(argv[0]))
        print(json.dumps(res, indent=1))
        payload = json.loads(Path(argv[0]).read_text())
        if res.get("reproduced"):
            print(f"REPRODUCED property={payload['property']} case={payload['case']['name']} obligation={payload['obligation']}")
            return 1
        print("not reproduced")
        return 0
    if cmd == "check":
        ap = argparse.ArgumentParser()
        ap.add_argument("id")
        ap.add_argument("--tier", default=os.environ.get("VERIF_TIER", "quick"), choices=["quick", "thorough"])
        ap.add_argument("--only", default=None)
        ap.add_argument("--jobs", type=int, default=int(os.environ.get("SYMX_JOBS", "0")) or None)
        a = ap.parse_args(argv)
        seed = int(os.environ.get("VERIF_SEED", "0") or 0)
        from .runner import run_check

        return run_check(a.id.upper(), a.tier, seed, jobs=a.jobs, only=a.only)
    print(f"unknown command {cmd}")
    return 2


if __name__ == "__main__":
    sys.exit(main())
