"""mode-agnostic helpers for scenarios (work on SymReal and on floats)"""

from __future__ import annotations

import math

import numpy as np
import z3

from .values import SymBool, SymInt, SymReal, as_bool_term, as_term, sym_and, sym_if, sym_not, sym_or  # noqa: F401


def is_symbolic(x) -> bool:
    return isinstance(x, (SymReal, SymBool))


def is_inf(x) -> bool:
    return isinstance(x, (float, np.floating)) and math.isinf(float(x))


def absval(x):
    return abs(x)


def is_int(x, tol=1e-6):
    """x is (numerically: within tol of) an integer"""
    if isinstance(x, SymInt):
        return True
    if isinstance(x, SymReal):
        if x.c is not None:
            return x.c.denominator == 1
        return SymBool(z3.IsInt(x.t))
    return abs(x - round(x)) <= tol * max(1.0, abs(x))


def land(*xs):
    if any(isinstance(x, SymBool) for x in xs):
        return sym_and(*xs)
    return all(bool(x) for x in xs)


def lor(*xs):
    if any(isinstance(x, SymBool) for x in xs):
        return sym_or(*xs)
    return any(bool(x) for x in xs)


def lnot(x):
    if isinstance(x, SymBool):
        return sym_not(x)
    return not bool(x)


def implies(a, b):
    return lor(lnot(a), b)


def ite(c, a, b):
    if isinstance(c, SymBool):
        return sym_if(c, a, b)
    return a if c else b


def smax(a, b):
    if isinstance(a, SymReal) or isinstance(b, SymReal):
        return sym_if(_ge(a, b), a, b)
    return max(a, b)


def smin(a, b):
    if isinstance(a, SymReal) or isinstance(b, SymReal):
        return sym_if(_ge(b, a), a, b)
    return min(a, b)


def _ge(a, b):
    r = a >= b
    return r


def floor_(x):
    if isinstance(x, SymReal):
        return x.floor()
    return math.floor(x)


def total(xs, start=0):
    s = start
    for x in xs:
        s = s + x
    return s


def dot(a, b):
    return total(x * y for x, y in zip(a, b))


def _toint_subterms(t, out, seen):
    if t.get_id() in seen:
        return
    seen.add(t.get_id())
    if z3.is_app(t):
        if t.decl().kind() == z3.Z3_OP_TO_INT:
            out.append(t)
        for c in t.children():
            _toint_subterms(c, out, seen)


def int_multiple(x, unit, tol=1e-6):
    """claim: x = g*unit for some integer g

    concrete unit: IsInt(x/unit).  Symbolic unit: division-free disjunction over witness
    candidates g built from the floor/ceil terms occurring in x (sound: any disjunct implies
    the claim; a failure to find the witness shows up as a non-reproducing counterexample).
    """
    if not isinstance(x, SymReal) and not isinstance(unit, SymReal):
        q = x / unit
        return abs(q - round(q)) <= tol * max(1.0, abs(q))
    x = x if isinstance(x, SymReal) else SymReal.const(x)
    unit = unit if isinstance(unit, SymReal) else SymReal.const(unit)
    if unit.c is not None:
        return is_int(x / unit)
    ints: list = []
    _toint_subterms(z3.simplify(x.t), ints, set())
    _toint_subterms(x.t, ints, set())
    uniq = {}
    for c in ints:
        uniq[c.get_id()] = c
    ints = list(uniq.values())
    cands = [z3.IntVal(0), z3.IntVal(1), z3.IntVal(2)]
    for c in ints:
        cands += [c, c + 1, -c, 1 - c, c + 2]
    if len(ints) >= 2:
        s = ints[0]
        for c in ints[1:]:
            s = s + c
        cands += [s + k for k in range(0, len(ints) + 2)] + [-s + k for k in range(0, len(ints) + 2)]
    return SymBool(z3.Or(*[x.t == unit.t * z3.ToReal(g) for g in cands]))
