#!/usr/bin/env python3
"""regenerate seeded/SUMMARY.md from seeded/*/meta.json and detect_*.json"""
import json
from pathlib import Path

root = Path("/verif/seeded")
rows = []
for d in sorted(p for p in root.iterdir() if p.is_dir()):
    meta = json.loads((d / "meta.json").read_text())
    prop = d.name.split("-")[0]
    dets = {}
    for f in sorted(d.glob("detect_*.json")):
        try:
            j = json.loads(f.read_text())
        except json.JSONDecodeError:
            continue
        dets[j["check"]] = j
    own = dets.get(prop)
    if own is None:
        verdict = "not run"
    elif own["exit_code"] == 1:
        verdict = f"caught ({own['violation_lines']} VIOLATION lines, {own['wall_s']} s)"
    elif own["exit_code"] == 3:
        verdict = "harness error (exit 3): " + own.get("first_harness_error", "")[:120]
    else:
        verdict = "MISSED (exit 0)"
    others = ", ".join(f"{k}:{'caught' if v['exit_code'] == 1 else ('exit3' if v['exit_code'] == 3 else 'missed')}" for k, v in dets.items() if k != prop)
    rows.append((d.name, meta.get("summary", "")[:160].replace("|", "/"), verdict, others, meta.get("miss_reason", "")))
out = ["# Seeded regressions vs. checks (quick tier)", "", "| seed | change | check of its own property | other checks run | note |", "|---|---|---|---|---|"]
for r in rows:
    out.append("| " + " | ".join(r) + " |")
caught = sum(1 for r in rows if r[2].startswith("caught"))
out += ["", f"{caught} of {len(rows)} caught by the check of the targeted property."]
(root / "SUMMARY.md").write_text("\n".join(out) + "\n")
print("\n".join(out[-3:]))
