#!/usr/bin/env python3
"""keep_seed.py ID M  -- copy a confirmed seeded change from /tmp/out_<ID>/<M> into /verif/seeded/<ID>-<M>/"""
import json, os, shutil, sys
from pathlib import Path
ID, M = sys.argv[1], sys.argv[2]
src = Path(os.environ.get("OUTPREFIX", "/tmp/out_") + f"{ID}/{M}")
ver = json.loads((src / "verify.json").read_text())
assert ver["demo_clean_rc"] == 0 and ver["demo_patched_rc"] != 0 and ver["tests_rc"] == 0, ver
dst = Path(f"/verif/seeded/{ID}-{M}")
dst.mkdir(parents=True, exist_ok=True)
shutil.copy(src / "patch.diff", dst / "patch.diff")
shutil.copy(src / "demo.py", dst / "demo.py")
meta = json.loads((src / "meta.json").read_text())
meta["breaks_property"] = ID
meta["confirmed_by_me"] = {
    "what_i_ran": f"tools/verify_seed.sh {ID} {M}: demo.py on the clean scratch worktree (exit {ver['demo_clean_rc']}), git apply patch.diff, demo.py (exit {ver['demo_patched_rc']}), full pytest suite with the patch (-n 6): {ver['tests_summary']}",
    **ver,
}
(dst / "meta.json").write_text(json.dumps(meta, indent=1))
print("kept", dst)
