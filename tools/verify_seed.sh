#!/bin/bash
# usage: verify_seed.sh C09 A   -- confirm a seeded change in the scratch worktree /tmp/wt_<ID>
# (demo passes on clean tree, fails with patch, full test suite passes with patch); writes verify.json
ID=$1; M=$2; WT=${WTPREFIX:-/tmp/wt_}$ID; OUT=${OUTPREFIX:-/tmp/out_}$ID/$M
cd $WT || exit 2
git checkout -q -- . ; git status --short | grep -q . && { echo "worktree dirty"; exit 2; }
PYTHONPATH=$WT timeout 600 /venv/bin/python $OUT/demo.py > $OUT/demo_clean.log 2>&1; rc_clean=$?
git apply $OUT/patch.diff || { echo "patch does not apply"; exit 2; }
PYTHONPATH=$WT timeout 600 /venv/bin/python $OUT/demo.py > $OUT/demo_patched.log 2>&1; rc_patched=$?
PYTHONPATH=$WT timeout 3000 /venv/bin/python -m pytest -q -p no:cacheprovider -n ${NPROC:-6} --timeout=900 tests > $OUT/tests_patched.log 2>&1; rc_tests=$?
summary=$(tail -1 $OUT/tests_patched.log)
git checkout -q -- .
find $WT -name __pycache__ -type d -prune -exec rm -rf {} + 2>/dev/null
printf '{"demo_clean_rc": %d, "demo_patched_rc": %d, "tests_rc": %d, "tests_summary": "%s"}\n' $rc_clean $rc_patched $rc_tests "$summary" > $OUT/verify.json
cat $OUT/verify.json
