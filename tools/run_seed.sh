#!/bin/bash
# run_seed.sh <seed-dir-name e.g. C09-A> [check id (default: property of the seed)] [tier]
# applies the seeded patch to /repo, runs the check, ALWAYS reverts /repo, records detect_<check>.json
S=$1; D=/verif/seeded/$S; ID=${2:-${S%%-*}}; TIER=${3:-quick}
cd /repo || exit 2
git status --short | grep -q . && { echo "/repo dirty, refusing"; exit 2; }
git apply $D/patch.diff || { echo "patch failed"; exit 2; }
trap 'git -C /repo checkout -q -- .' EXIT
cd /verif
t0=$(date +%s)
./run check $ID --tier $TIER > /tmp/seedrun_$S_$ID.log 2>&1; rc=$?
t1=$(date +%s)
nviol=$(grep -c '^VIOLATION' /tmp/seedrun_$S_$ID.log)
first=$(grep -m1 '^VIOLATION' /tmp/seedrun_$S_$ID.log | cut -c1-300 | sed 's/"/\\"/g')
herr=$(grep -m1 '^HARNESS-ERROR' /tmp/seedrun_$S_$ID.log | cut -c1-300 | sed 's/"/\\"/g' | tr -d '\n')
printf '{"check": "%s", "tier": "%s", "exit_code": %d, "violation_lines": %d, "first_violation": "%s", "first_harness_error": "%s", "wall_s": %d}\n' $ID $TIER $rc $nviol "$first" "$herr" $((t1-t0)) > $D/detect_$ID.json
cat $D/detect_$ID.json
rm -f /verif/replays/*
git -C /verif checkout -q -- evidence 2>/dev/null
