#!/bin/bash
# run_seed.sh <patch dir (contains patch.diff)> <check id> [tier]
# Applies the seeded patch in a throw-away worktree of /repo (never in /repo itself), runs the check
# against that tree (SYMX_REPO), removes the worktree, and writes <patch dir>/detect_<check>.json
D=$(readlink -f $1); ID=$2; TIER=${3:-quick}
TAG=$(basename $(dirname $D))_$(basename $D)_$ID
WT=/tmp/wt_seed_$TAG; OUTD=/tmp/seedout_$TAG
rm -rf $OUTD; mkdir -p $OUTD
git -C /repo worktree add --detach $WT HEAD >/dev/null 2>&1 || { echo "worktree failed"; exit 2; }
trap 'git -C /repo worktree remove --force '$WT' >/dev/null 2>&1; rm -rf '$OUTD EXIT
git -C $WT apply $D/patch.diff || { echo "patch failed"; exit 2; }
cd /verif
t0=$(date +%s)
SYMX_REPO=$WT SYMX_OUT=$OUTD ./run check $ID --tier $TIER > $OUTD/log 2>&1; rc=$?
t1=$(date +%s)
nviol=$(grep -c '^VIOLATION' $OUTD/log)
first=$(grep -m1 '^VIOLATION' $OUTD/log | cut -c1-300 | sed 's/"/\\"/g')
herr=$(grep -m1 '^HARNESS-ERROR' $OUTD/log | cut -c1-300 | sed 's/"/\\"/g' | tr -d '\n\\')
printf '{"check": "%s", "tier": "%s", "exit_code": %d, "violation_lines": %d, "first_violation": "%s", "first_harness_error": "%s", "wall_s": %d}\n' $ID $TIER $rc $nviol "$first" "$herr" $((t1-t0)) > $D/detect_$ID.json
cat $D/detect_$ID.json
