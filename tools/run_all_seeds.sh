#!/bin/bash
# run every kept seed against the check of its own property (when that check exists); sequential, limited cores
cd /verif
for d in seeded/*; do
  s=$(basename $d); id=${s%%-*}
  ls checks/$(echo $id | tr A-Z a-z)_*.py >/dev/null 2>&1 || continue
  [ -f $d/detect_$id.json ] && [ -z "$FORCE" ] && continue
  SYMX_JOBS=${SYMX_JOBS:-6} nice -n 10 tools/run_seed.sh $d $id quick
done
