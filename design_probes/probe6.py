import os
os.environ["NUMBA_DISABLE_JIT"]="1"
import z3, time, numpy as np, importlib, traceback
from symex import *
import pde
loc = importlib.import_module("pde.grids.boundaries.local")
nbb = importlib.import_module("pde.backends.numba._boundaries")
class NP:
    def __getattr__(self, k): return getattr(np, k)
    def isnan(self, a):
        a = np.asarray(a)
        if a.dtype == object: return np.zeros(a.shape, bool)
        return np.isnan(a)
    def isfinite(self, a):
        a = np.asarray(a)
        if a.dtype == object: return np.ones(a.shape, bool)
        return np.isfinite(a)
loc.np = NP(); nbb.np = NP()
symfloat = lambda x: x if isinstance(x, SymReal) else float(x)
loc.float = symfloat; nbb.float = symfloat
Ctx.cur = Ctx([], [])
g = pde.CartesianGrid([[0,1],[0,2]],[3,2])
v = SymReal(z3.Real("v")); gam = SymReal(z3.Real("gam")); beta=SymReal(z3.Real("beta")); tt = SymReal(z3.Real("t"))
def fresh(name, shape):
    a = np.empty(shape, dtype=object)
    for idx in np.ndindex(*shape): a[idx] = SymReal(z3.Real(name+"_"+"_".join(map(str,idx))))
    return a
for bc in [{"x-": {"value": v}, "x+": {"derivative": v}, "y-": {"type":"mixed","value":gam,"const":beta}, "y+": {"curvature": v}},
           {"x": {"value_expression": "t*y"}, "y": "neumann"}]:
    try:
        bcs = g.get_boundary_conditions(bc)
        full = fresh("a", g._shape_full)
        ref = full.copy()
        bcs.set_ghost_cells(full, args={"t": tt})
        print("interp:", full[0,1], "|", full[1,0], "|", full[1,-1])
        setter = pde.backends.get_backend("numba").make_ghost_cell_setter(bcs)
        full2 = ref.copy()
        setter(full2, args={"t": tt})
        print("numba :", full2[0,1], "|", full2[1,0], "|", full2[1,-1])
    except Exception:
        traceback.print_exc()
print(Ctx.cur.pc)
