import os, time
os.environ["NUMBA_DISABLE_JIT"]="1"
import numpy as np, z3
import pde
from symreal import *
g = pde.CartesianGrid([[0,1],[0,2]],[3,4])
op = g.make_operator_no_bc("laplace", backend="numba")
print(op)
arr = symarray("a", g._shape_full)
out = np.empty(g.shape, dtype=object)
t=time.time()
op(arr, out)
print(out[0,0], time.time()-t)
# spherical conservative
g = pde.SphericalSymGrid((1,3),4)
op = g.make_operator_no_bc("laplace", backend="numba")
arr = symarray("a", g._shape_full); out = np.empty(g.shape, dtype=object)
op(arr,out); print(out[0])
# integral conservation with neumann bc: set ghost = neighbor
vol = g.cell_volumes
s = z3.Solver()
arr[0]=arr[1]; arr[-1]=arr[-2]
op(arr,out)
tot = sum((out[i]*vol[i] for i in range(4)), SymReal(z3.RealVal(0)))
print(z3.simplify(tot.t))
