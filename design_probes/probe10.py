import os
os.environ["NUMBA_DISABLE_JIT"]="1"
import z3, time, numpy as np, importlib, traceback
from symex import *
import pde
def has_sym(x):
    try:
        a = np.asarray(x, dtype=object)
    except Exception: return False
    return any(isinstance(v, SymReal) for v in a.flat)
class NP:
    def __getattr__(self, k): return getattr(np, k)
    def array(self, obj, *a, **kw):
        if a: kw["dtype"] = a[0]; a = a[1:]
        if has_sym(obj): kw["dtype"] = object
        return np.array(obj, *a, **kw)
    def asarray(self, obj, *a, dtype=None, **kw):
        if dtype in (np.double, float) and has_sym(obj): dtype = object
        return np.asarray(obj, *a, dtype=dtype, **kw)
    def isclose(self, a, b, **kw): return True
    def any(self, a, *args, **kw):
        return np.any(a, *args, **kw)
for m in ["pde.grids.cartesian", "pde.tools.cuboid", "pde.grids.cylindrical", "pde.grids.base"]:
    importlib.import_module(m).np = NP()
for m in ["pde.grids.cartesian", "pde.tools.cuboid", "pde.grids.cylindrical"]:
    importlib.import_module(m).float = lambda x: x if isinstance(x, SymReal) else float(x)
x0, dx, y0, dy = [SymReal(z3.Real(n)) for n in ("x0","dx","y0","dy")]
base=[dx.t>0, dy.t>0]
Ctx.cur = Ctx([], base)
try:
    g = pde.CartesianGrid([[x0, x0+3*dx],[y0, y0+4*dy]], [3,4], periodic=[True, False])
    print(g.discretization, g.axes_coords[0], g.axes_bounds, g.cell_volume_data)
    print("volume", g.volume)
    op = g.make_operator_no_bc("laplace", backend="numba")
    arr = np.empty(g._shape_full, dtype=object)
    for idx in np.ndindex(*arr.shape): arr[idx] = SymReal(z3.Real("a_%d_%d"%idx))
    out = np.empty(g.shape, dtype=object); op(arr, out); print(out[0,0])
except Exception: traceback.print_exc()
try:
    rin, dr, z0, dz = [SymReal(z3.Real(n)) for n in ("rin","dr","z0","dz")]
    Ctx.cur = Ctx([], [rin.t>=0, dr.t>0, dz.t>0])
    c = pde.CylindricalSymGrid((rin, rin+3*dr), (z0, z0+2*dz), (3,2))
    print(c.discretization, c.cell_volume_data)
    print(Ctx.cur.pc)
except Exception: traceback.print_exc()
