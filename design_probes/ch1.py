from pde.trackers.interrupts import ConstantInterrupts

def _const_next(dt: float, t0: float, t1: float, t2: float) -> bool:
    """
    pre: 0.001 <= dt <= 1000.0
    pre: -1000.0 <= t0 <= t1 <= t2 <= 1000.0
    post: _
    """
    ir = ConstantInterrupts(dt)
    a0 = ir.initialize(t0)
    a1 = ir.next(t1)
    a2 = ir.next(t2)
    return a1 >= t1 and a2 >= t2 and a1 > a0 and a2 > a1
