import z3, math
from symex import *
from pde.trackers.interrupts import ConstantInterrupts, FixedInterrupts

dt, t0, t1, t2 = [SymReal(z3.Real(n)) for n in ("dt","t0","t1","t2")]
base = [dt.t > 0, t0.t <= t1.t, t1.t <= t2.t]
def run():
    ir = ConstantInterrupts.__new__(ConstantInterrupts)
    ir.dt = dt; ir.t_start=None; ir._t_next=None
    a0 = ir.initialize(t0); a1 = ir.next(t1); a2 = ir.next(t2)
    return a0, a1, a2
res, stats = explore(run, base)
print(stats)
viol = 0
for pc, (a0,a1,a2) in res:
    s = z3.Solver(); s.set("timeout", 30000); s.add(*base); s.add(*pc)
    prop = z3.And(a1.t >= t1.t, a2.t >= t2.t, a1.t > a0.t, a2.t > a1.t,
                  )
    s.add(z3.Not(prop))
    r = s.check()
    print(r, len(pc))
    if str(r)=='sat': print(s.model()); viol+=1
