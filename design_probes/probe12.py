import numpy as np, pde, traceback
# C18: spherical annulus, curvature at inner boundary
g = pde.SphericalSymGrid((1, 3), 4)
bc = {"r-": {"curvature": 0.5}, "r+": {"value": 1.0}}
rhs = pde.ScalarField(g, [1., 2., -1., 0.5])
try:
    sol = pde.solve_poisson_equation(rhs, bc)
    print("C18 spherical residual:", np.abs(sol.laplace(bc, backend="numba").data - rhs.data).max())
except Exception as e: print("C18 err", e)
for G, nm in [(pde.PolarSymGrid((1,3),4),"polar"), (pde.CylindricalSymGrid((1,3),(0,2),(4,3)),"cyl"), (pde.CartesianGrid([[0,2]],4),"cart1")]:
    try:
        bcx = {"r-": {"curvature": 0.5}, "r+": {"value": 1.0}} if nm!="cart1" else {"x-": {"curvature": 0.5}, "x+": {"value": 1.0}}
        if nm=="cyl": bcx["z"] = {"value": 0}
        rhs = pde.ScalarField.random_uniform(G, rng=np.random.default_rng(0))
        sol = pde.solve_poisson_equation(rhs, bcx)
        print("C18", nm, "residual:", np.abs(sol.laplace(bcx).data - rhs.data).max())
    except Exception as e: print("C18", nm, "err", type(e).__name__, e)
# C19 cylindrical vector to cartesian
c = pde.CylindricalSymGrid(2, (0, 2), (8, 8))
v = pde.VectorField(c, 0.); v["z"] = 1.0   # uniform axial field
cart = pde.CartesianGrid([[-1,1],[-1,1],[0.2,1.8]], [4,4,4])
vc = v.interpolate_to_grid(cart)
print("C19 axial field -> cart components means:", vc.data.reshape(3,-1).mean(axis=1), "index of z in field:", c.get_axis_index("z"))
# C14 from_data on spherical grid with vector
s = pde.SphericalSymGrid(2, 3)
try:
    data = np.arange(4*5, dtype=float).reshape(4,5)
    fc = pde.FieldCollection.from_data([pde.ScalarField, pde.VectorField], s, data)
    print("C14 from_data ok", [f.data.shape for f in fc])
except Exception as e: print("C14 from_data err:", type(e).__name__, e)
