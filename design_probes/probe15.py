import os
os.environ["NUMBA_DISABLE_JIT"]="1"
src = open("probe4.py").read().split("t0=time.time()")[0]
src = src.replace("D.t >= dt.t", "D.t > 0")
exec(src)
NT = int(os.environ.get("NT","1"))
D2 = SymReal(z3.Real("D2"))
N = z3.Int("N")
base += [dt.t == 1, T.t == z3.ToReal(N)*dt.t, N>=1, N<=K, D2.t > 0]
# bound catch-up forks: D not absurdly small relative to dt
base += [D.t*8 >= dt.t, D2.t*8 >= dt.t]
def mk(Dv):
    tr = Rec(ti.ConstantInterrupts.__new__(ti.ConstantInterrupts)); tr.interrupt.dt = Dv; tr.interrupt.t_start=None; tr.interrupt._t_next=None; return tr
def run():
    state = pde.ScalarField(g, np.array([SymReal(z3.Real("u0"))],dtype=object), dtype=object)
    solver = pde.EulerSolver(ZeroPDE(), backend="numpy")
    trs = [mk(D)] + ([mk(D2)] if NT>1 else [])
    c = Controller(solver, t_range=(ts, ts+T), tracker=trs)
    c.run(state, dt=dt)
    return c.info["t_final"], solver.info["steps"], [list(t.times) for t in trs]
t0=time.time()
res, stats = explore(run, base, tmax=int(os.environ.get("TMAX","240")), max_paths=100000)
print(stats)
nv=0; unk=0
for pc,(tf,steps,times) in res:
    s=z3.Solver(); s.set("timeout",30000); s.add(*base); s.add(*pc)
    tfz = tf.t if isinstance(tf, SymReal) else z3.RealVal(tf)
    stz = steps.t if isinstance(steps, SymReal) else z3.RealVal(steps)
    s.add(z3.Or(stz != z3.ToReal(N), tfz != ts.t+T.t))
    r=s.check()
    if str(r)=='sat':
        nv+=1
        if nv<=4:
            mm=s.model(); f=lambda v: float(mm.eval(v,model_completion=True).as_fraction())
            print("VIOL N=",mm[N],"steps",f(stz),"dt",f(dt.t),"D",f(D.t),"D2",f(D2.t),"T",f(T.t),"tf",f(tfz))
    elif str(r)!='unsat': unk+=1
print("violations", nv, "unknown", unk, "time", round(time.time()-t0,1))
