import os
os.environ["NUMBA_DISABLE_JIT"]="1"
exec(open("probe4.py").read().split("t0=time.time()")[0])
whole = os.environ.get("WHOLE","0")=="1"
N = z3.Int("N")
if whole: base += [T.t == z3.ToReal(N)*dt.t, N>=1, N<=K]
t0=time.time()
res, stats = explore(run, base, tmax=900)
print(stats)
nv=0; unk=0
for pc,(tf,steps,times,cl) in res:
    m = len(times)
    # obligation A: every scheduled k*D <= T is served by exactly one call within dt/2; frames count
    s=z3.Solver(); s.set("timeout",30000); s.add(*base); s.add(*pc)
    k = z3.Int("k")
    # exists k with k>=0, k*D<=T such that number of calls within dt/2 != 1
    cnt = z3.Sum([z3.If(z3.And(tm.t - (ts.t + z3.ToReal(k)*D.t) <= dt.t/2, (ts.t + z3.ToReal(k)*D.t) - tm.t <= dt.t/2), 1, 0) for tm in times]) if times else z3.IntVal(0)
    tfz = tf.t if isinstance(tf, SymReal) else z3.RealVal(tf)
    sk = ts.t + z3.ToReal(k)*D.t; band = z3.Q(2,1000000)*dt.t
    absd = z3.If(sk - tfz >= 0, sk - tfz, tfz - sk); absT = z3.If(ts.t+T.t - tfz >= 0, ts.t+T.t - tfz, tfz - ts.t - T.t)
    s.add(z3.Or(absd == 0, absd > band), z3.Or(absT == 0, absT > band))
    s.add(k>=0, z3.ToReal(k)*D.t <= T.t, cnt != 1)
    r=s.check()
    if str(r)=='sat':
        nv+=1
        if nv<=6:
            mm=s.model(); f=lambda v: float(mm.eval(v,model_completion=True).as_fraction()); print("VIOL A k=",mm[k],"dt",f(dt.t),"D",f(D.t),"T",f(T.t),"tfinal", f(tf.t) if isinstance(tf,SymReal) else tf, "times",[f(x.t) for x in times])
    elif str(r)!='unsat': unk+=1
    # obligation B (whole): frames == floor(T/D)+1
    if whole:
        s=z3.Solver(); s.set("timeout",30000); s.add(*base); s.add(*pc)
        kk=z3.Int('kk'); q=z3.ToInt(T.t/D.t); s.add((z3.ToReal(q)+1)*D.t - T.t > z3.Q(2,1000000)*dt.t); s.add(m != q+1)
        r=s.check()
        if str(r)=='sat':
            nv+=1
            if nv<=6:
                mm=s.model(); f=lambda v: float(mm.eval(v,model_completion=True).as_fraction()); print("VIOL B m=",m,"dt",f(dt.t),"D",f(D.t),"T",f(T.t),"T/D", f(T.t)/f(D.t), "times",[f(x.t) for x in times])
        elif str(r)!='unsat': unk+=1
print("violations", nv, "unknown", unk, "time", round(time.time()-t0,1))
