import os
os.environ["NUMBA_DISABLE_JIT"]="1"
import z3, time, numpy as np, importlib
from symex import *
import pde
gr = importlib.import_module("pde.backends.numba.grids")
gr.float = lambda x: x if isinstance(x, SymReal) else float(x)
N=4
g = pde.CartesianGrid([[-1, 3]], [N], periodic=False)
interp = gr.make_single_interpolator(g, fill=None, with_ghost_cells=False)
x = SymReal(z3.Real("x"))
data = np.empty(N, dtype=object)
for i in range(N): data[i] = SymReal(z3.Real(f"a{i}"))
base=[x.t >= -1, x.t <= 3] + [z3.And(d.t>=-8, d.t<=8) for d in data]
def run():
    try:
        r = interp(data, np.array([x], dtype=object)); return ("ok", r if isinstance(r, SymReal) else r.item())
    except pde.grids.base.DomainError:
        return ("domain", None)
res, st = explore(run, base)
print(st)
for pc, (kind, val) in res:
    s = z3.Solver(); s.add(*base); s.add(*pc)
    if kind=="ok":
        lo = z3.RealVal(8); hi = z3.RealVal(-8)
        mn = data[0].t; mx = data[0].t
        for d in data[1:]:
            mn = z3.If(d.t < mn, d.t, mn); mx = z3.If(d.t > mx, d.t, mx)
        s.add(z3.Or(val.t < mn, val.t > mx))
        print(kind, s.check(), val)
    else:
        print(kind, "reachable inside domain?", s.check(), s.model() if str(s.check())=='sat' else '')
