import os
os.environ["NUMBA_DISABLE_JIT"]="1"
import z3, time, numpy as np, importlib
from symex import *
import pde

AX = []  # side axioms
class SymAngle:
    __array_ufunc__ = None
    def __init__(s, c, sn): s.c=c; s.s=sn
    def cos(s): return s.c
    def sin(s): return s.s
def fresh_angle(name):
    c = SymReal(z3.Real(name+"_c")); s = SymReal(z3.Real(name+"_s"))
    AX.append(c.t*c.t + s.t*s.t == 1)
    return SymAngle(c, s)
_n=[0]
def sym_sqrt(x):
    _n[0]+=1; r = SymReal(z3.Real(f"rho{_n[0]}")); AX.append(r.t >= 0); AX.append(r.t*r.t == x.t); return r
SymReal.sqrt = sym_sqrt
SymReal.conjugate = lambda s: s
SymReal.real = property(lambda s: s)
SymReal.hypot = lambda a,b: sym_sqrt(a*a + b*b)
def sym_arctan2(y, x):
    rho = sym_sqrt(x*x + y*y)
    return SymAngle(x/rho, y/rho)
SymReal.arctan2 = sym_arctan2

Ctx.cur = Ctx([], [])
def S(x):
    if isinstance(x, np.ndarray): x = x.item()
    return x if isinstance(x, SymReal) else SymReal(z3.RealVal(x))
def Smat(M): 
    out = np.empty((3,3), dtype=object)
    for i in range(3):
        for j in range(3): out[i,j] = S(M[i][j])
    return out
cyl = pde.grids.coordinates.CylindricalCoordinates()
sph = pde.grids.coordinates.SphericalCoordinates()
r = SymReal(z3.Real("r")); z = SymReal(z3.Real("z")); phi = fresh_angle("phi"); th = fresh_angle("th")
AX += [r.t > 0, th.s.t >= 0]
def prove(name, claim, tmo=60000):
    s = z3.Solver(); s.set("timeout", tmo); s.add(*AX); s.add(z3.Not(claim)); t0=time.time(); res = s.check()
    print(f"{name}: {res} ({time.time()-t0:.2f}s)")
for nm, c, pt in [("cyl", cyl, [r, phi, z]), ("sph", sph, [r, th, phi])]:
    p = np.empty(3, dtype=object); p[:] = pt
    R = Smat(c._basis_rotation(p))
    # orthonormal
    cl = []
    for i in range(3):
        for j in range(3):
            d = sum((R[i,k]*R[j,k] for k in range(3)), SymReal(z3.RealVal(0)))
            d = d if isinstance(d, SymReal) else SymReal(z3.RealVal(d))
            cl.append(d.t == (1 if i==j else 0))
    prove(nm+" orthonormal", z3.And(*cl))
    det = (R[0,0]*(R[1,1]*R[2,2]-R[1,2]*R[2,1]) - R[0,1]*(R[1,0]*R[2,2]-R[1,2]*R[2,0]) + R[0,2]*(R[1,0]*R[2,1]-R[1,1]*R[2,0]))
    prove(nm+" det=+1", det.t == 1)
    J = Smat(c._mapping_jacobian(p))
    # columns of J normalised equal rows of R:  J[:,i] = h_i * R[i,:]
    h = [S(v) for v in c._scale_factors(p)]
    cl=[]
    for i in range(3):
        for k in range(3):
            Jki = J[k,i] if isinstance(J[k,i], SymReal) else SymReal(z3.RealVal(J[k,i]))
            hi = h[i] if isinstance(h[i], SymReal) else SymReal(z3.RealVal(h[i]))
            Rik = R[i,k] if isinstance(R[i,k], SymReal) else SymReal(z3.RealVal(R[i,k]))
            cl.append(Jki.t == (hi*Rik).t)
    prove(nm+" R = normalised J columns", z3.And(*cl))
    # round trip from_cart(to_cart(p)) 
    x = c._pos_to_cart(p)
    q = c._pos_from_cart(x)
    cl=[]
    for a,b in zip(q, pt):
        if isinstance(b, SymAngle): cl += [a.c.t == b.c.t, a.s.t == b.s.t]
        else: cl.append(a.t == b.t)
    if nm=="sph": AX.append(th.s.t > 0)
    prove(nm+" roundtrip", z3.And(*cl), 120000)
s = z3.Solver(); s.set("timeout", 60000); s.add(*AX); print("AX consistent:", s.check())
prove("MUTANT det=-1 (expect sat)", det.t == -1)
prove("MUTANT roundtrip r == 2r (expect sat)", q[0].t == 2*r.t)
print(len(AX), AX[-6:])
