import os, time, traceback
os.environ["NUMBA_DISABLE_JIT"]="1"
import numpy as np, z3
import pde
from symreal import *
g = pde.CartesianGrid([[0,1],[0,2]],[3,4], periodic=[True, False])
data = symarray("u", g.shape)
try:
    f = pde.ScalarField(g, data, dtype=object)
    print("field ok", f.data.dtype)
    lap = f.laplace({"x":"periodic","y":{"value": 2.0}})
    print("lap", lap.data[0,0])
except Exception:
    traceback.print_exc()
try:
    eq = pde.DiffusionPDE(diffusivity=0.5, bc={"x":"periodic","y":{"derivative": 1.0}})
    r = eq.evolution_rate(f, 0.0)
    print("rate", r.data[0,0])
except Exception:
    traceback.print_exc()
try:
    fc = pde.ScalarField(g, 1.0)
    rhs = eq.make_pde_rhs(fc, backend="numba")
    out = rhs(f.data, 0.0)
    print("rhs numba", out[0,0])
    d = r.data[0,0] - out[0,0]
    print(z3.simplify(d.t))
except Exception:
    traceback.print_exc()
try:
    eq2 = pde.PDE({"c": "0.5*laplace(c)"}, bc={"x":"periodic","y":{"derivative": 1.0}})
    rhs = eq2.make_pde_rhs(fc, backend="numba")
    out2 = rhs(f.data, 0.0)
    print("PDE rhs numba", z3.simplify((out2[0,0]-out[0,0]).t))
    r2 = eq2.evolution_rate(f, 0.0)
    print("PDE numpy", z3.simplify((r2.data[0,0]-out[0,0]).t))
except Exception:
    traceback.print_exc()
