import os
os.environ["NUMBA_DISABLE_JIT"]="1"
import z3, time, numpy as np, importlib, traceback
from symex import *
import pde
from pde.tools.expressions import ScalarExpression
Ctx.cur = Ctx([], [])
a, b = SymReal(z3.Real("a")), SymReal(z3.Real("b"))
uf = {}
def UF(name):
    def f(self, *o):
        fn = uf.setdefault(name, z3.Function(name, *([z3.RealSort()]*(len(o)+2))))
        return SymReal(fn(self.t, *[lift(x) for x in o]))
    return f
for n in ["sin","cos","exp","log","tanh","sqrt","arctan2","hypot"]:
    setattr(SymReal, n, UF(n))
for txt in ["a**2 + 3*b/(1+a**2)", "(a+b)**2 - a*b", "sin(a)*cos(b) + exp(-a**2)", "heaviside(a, 0.5)*b", "a/b - b/a", "sqrt(a**2+b**2)", "2**a", "a**0.5", "abs(a)*b", "Heaviside(a)", "a > b", "tanh(a)**2"]:
    try:
        e = ScalarExpression(txt, signature=["a","b"])
        r1 = e(a, b)
        f2 = e.get_function(backend="numba", single_arg=False)
        r2 = f2(a, b)
        print(f"{txt!r:40} numpy={r1}  numba_same={z3.simplify(r1.t - r2.t) if isinstance(r1,SymReal) and isinstance(r2,SymReal) else (r1,r2)}")
    except Exception as ex:
        print(f"{txt!r:40} FAIL {type(ex).__name__}: {str(ex)[:150]}")
