import numpy as np, pde
g = pde.UnitGrid([4])
f = pde.ScalarField(g, [1.,2.,4.,8.])
op1 = g.make_operator("laplace", bc={"value": 0}, backend="numba")
op2 = g.make_operator("laplace", bc={"derivative": 0}, backend="numba")
print(op1 is op2, op1(f.data), op2(f.data))
print("fresh:", f.laplace({"derivative":0}, backend="scipy").data)
# cylinder distance
c = pde.CylindricalSymGrid(2, (0, 10), (4, 10), periodic_z=True)
print("dist across seam", c.distance([1, 0.5], [1, 9.5]), "expected 1")
print(c.state, pde.CylindricalSymGrid((1,2),(0,1),4).state)
