"""Probe: path-exploring symbolic executor (DFS over branch decisions) with z3 reals."""
from __future__ import annotations
import math, time
from fractions import Fraction
import numpy as np
import z3

class PathAbort(BaseException):
    pass

class Ctx:
    cur = None
    def __init__(self, decisions, base):
        self.decisions = list(decisions)
        self.pos = 0
        self.pc = list(base)
        self.solver = z3.Solver()
        self.solver.set("timeout", 20000)
        self.solver.add(*base)
        self.pending = []  # alternative prefixes to explore
        self.nq = 0
    def feasible(self, cond):
        self.solver.push(); self.solver.add(cond); self.nq += 1
        r = self.solver.check(); self.solver.pop()
        return str(r)
    def branch(self, cond):
        cond = z3.simplify(cond)
        if z3.is_true(cond): return True
        if z3.is_false(cond): return False
        if self.pos < len(self.decisions):
            d = self.decisions[self.pos]; self.pos += 1
        else:
            rt = self.feasible(cond); rf = self.feasible(z3.Not(cond))
            if rt == 'unknown' or rf == 'unknown':
                raise PathAbort('unknown')
            if rt == 'sat' and rf == 'sat':
                self.pending.append(self.decisions + [False])
                d = True
            elif rt == 'sat': d = True
            elif rf == 'sat': d = False
            else: raise PathAbort('infeasible')
            self.decisions.append(d); self.pos += 1
        c = cond if d else z3.Not(cond)
        self.pc.append(c); self.solver.add(c)
        return d

def lift(x):
    if isinstance(x, SymReal): return x.t
    if isinstance(x, (bool, np.bool_)): return None
    if isinstance(x, (int, np.integer)): return z3.RealVal(int(x))
    if isinstance(x, (float, np.floating)):
        if math.isinf(x) or math.isnan(x): return None
        f = Fraction(float(x)); return z3.Q(f.numerator, f.denominator)
    return None

class SymBool:
    def __init__(self, t): self.t = t
    def __bool__(self): return Ctx.cur.branch(self.t)
    def __and__(self, o): return SymBool(z3.And(self.t, o.t if isinstance(o, SymBool) else z3.BoolVal(bool(o))))
    def __or__(self, o): return SymBool(z3.Or(self.t, o.t if isinstance(o, SymBool) else z3.BoolVal(bool(o))))
    def __invert__(self): return SymBool(z3.Not(self.t))

class SymReal:
    def __array_ufunc__(self, ufunc, method, *inputs, out=None, **kw):
        conv = [np.asarray(x, dtype=object) if isinstance(x, SymReal) else x for x in inputs]
        if out is not None: kw["out"] = out
        res = getattr(ufunc, method)(*conv, **kw)
        if isinstance(res, np.ndarray) and res.ndim == 0 and res.dtype == object:
            return res.item()
        return res
    def __init__(self, t): self.t = t
    def _bin(self, o, f):
        if isinstance(o, np.ndarray):
            out = np.empty(o.shape, dtype=object)
            for idx in np.ndindex(*o.shape):
                out[idx] = self._bin(o[idx], f)
            return out
        l = lift(o)
        if l is None:
            if isinstance(o, float) and math.isinf(o): return ('inf', o)
            return NotImplemented
        return SymReal(z3.simplify(f(self.t, l)))
    def __add__(s, o):
        r = s._bin(o, lambda a,b: a+b); return o if isinstance(r, tuple) else r
    __radd__ = __add__
    def __sub__(s, o):
        r = s._bin(o, lambda a,b: a-b); return -o if isinstance(r, tuple) else r
    def __rsub__(s, o):
        r = s._bin(o, lambda a,b: b-a); return o if isinstance(r, tuple) else r
    def __mul__(s, o): return s._bin(o, lambda a,b: a*b)
    __rmul__ = __mul__
    def __truediv__(s, o): return s._bin(o, lambda a,b: a/b)
    def __rtruediv__(s, o): return s._bin(o, lambda a,b: b/a)
    def __neg__(s): return SymReal(-s.t)
    def __pos__(s): return s
    def __abs__(s): return SymReal(z3.If(s.t >= 0, s.t, -s.t))
    def __pow__(s, n):
        if isinstance(n, (float, np.floating)) and float(n).is_integer(): n = int(n)
        if isinstance(n, (int, np.integer)):
            n = int(n)
            r = z3.RealVal(1)
            for _ in range(abs(n)): r = r * s.t
            return SymReal(z3.simplify(r if n >= 0 else 1 / r))
        raise NotImplementedError(n)
    def _cmp(s, o, f, inf_res):
        l = lift(o)
        if l is None:
            if isinstance(o, float) and math.isinf(o): return inf_res(o)
            return NotImplemented
        return SymBool(f(s.t, l))
    def __lt__(s, o): return s._cmp(o, lambda a,b: a<b, lambda o: o>0)
    def __le__(s, o): return s._cmp(o, lambda a,b: a<=b, lambda o: o>0)
    def __gt__(s, o): return s._cmp(o, lambda a,b: a>b, lambda o: o<0)
    def __ge__(s, o): return s._cmp(o, lambda a,b: a>=b, lambda o: o<0)
    def __eq__(s, o): return s._cmp(o, lambda a,b: a==b, lambda o: False)
    def __ne__(s, o): return s._cmp(o, lambda a,b: a!=b, lambda o: True)
    __hash__ = None
    def __float__(s): return s  # float(x) keeps symbolic (hack; float() requires real float)
    def __divmod__(s, o):
        l = lift(o)
        q = z3.ToInt(s.t / l)
        return SymInt(z3.simplify(q)), SymReal(z3.simplify(s.t - z3.ToReal(q) * l))
    def __ceil__(s):
        # fork over integer value within bound
        n = z3.ToInt(s.t)
        # ceil(x) = -floor(-x)
        c = -z3.ToInt(-s.t)
        return SymInt(z3.simplify(c))
    def __round__(s, nd=None):
        # round half to even
        x = s.t
        fl = z3.ToInt(x)
        frac = x - z3.ToReal(fl)
        r = z3.If(frac < z3.Q(1,2), fl, z3.If(frac > z3.Q(1,2), fl+1, z3.If(fl % 2 == 0, fl, fl+1)))
        return SymInt(z3.simplify(r))
    def __repr__(s): return f"S({s.t})"

class SymInt(SymReal):
    """integer-valued symbolic; concretised by forking when needed as range bound"""
    def __init__(s, t): s.ti = t; s.t = z3.ToReal(t)
    def __index__(s):
        return s.concretize()
    __int__ = __index__
    def concretize(s):
        ctx = Ctx.cur
        # enumerate values via branching: find a model value, branch on equality
        while True:
            ctx.solver.push(); r = ctx.solver.check()
            if str(r) != 'sat': ctx.solver.pop(); raise PathAbort('conc')
            v = ctx.solver.model().eval(s.ti, model_completion=True).as_long(); ctx.solver.pop()
            if ctx.branch(s.ti == v): return v

def explore(fn, base=(), max_paths=10000, tmax=300):
    stack = [[]]; results = []; t0 = time.time(); nq = 0; aborted = 0
    while stack and len(results) < max_paths and time.time()-t0 < tmax:
        dec = stack.pop()
        ctx = Ctx(dec, base); Ctx.cur = ctx
        try:
            out = fn()
            results.append((list(ctx.pc), out))
        except PathAbort as e:
            aborted += 1
        stack.extend(ctx.pending); nq += ctx.nq
    return results, dict(paths=len(results), aborted=aborted, queries=nq, left=len(stack), time=time.time()-t0)
