"""Probe: minimal symbolic real wrapping z3 terms, usable inside numpy object arrays."""
from __future__ import annotations

import math
from fractions import Fraction

import numpy as np
import z3


def _lift(x):
    if isinstance(x, SymReal):
        return x.t
    if isinstance(x, (bool, np.bool_)):
        raise TypeError("bool")
    if isinstance(x, (int, np.integer)):
        return z3.RealVal(int(x))
    if isinstance(x, (float, np.floating)):
        f = Fraction(float(x))
        return z3.Q(f.numerator, f.denominator)
    if isinstance(x, Fraction):
        return z3.Q(x.numerator, x.denominator)
    if isinstance(x, np.ndarray) and x.ndim == 0:
        return _lift(x.item())
    return None


class SymReal:
    __array_priority__ = 1000
    # let numpy scalars defer to us in binary ops
    __array_ufunc__ = None

    def __init__(self, t):
        self.t = t

    def _bin(self, other, f):
        o = _lift(other)
        if o is None:
            return NotImplemented
        return SymReal(z3.simplify(f(self.t, o)))

    def __add__(self, o):
        return self._bin(o, lambda a, b: a + b)

    __radd__ = __add__

    def __sub__(self, o):
        return self._bin(o, lambda a, b: a - b)

    def __rsub__(self, o):
        return self._bin(o, lambda a, b: b - a)

    def __mul__(self, o):
        return self._bin(o, lambda a, b: a * b)

    __rmul__ = __mul__

    def __truediv__(self, o):
        return self._bin(o, lambda a, b: a / b)

    def __rtruediv__(self, o):
        return self._bin(o, lambda a, b: b / a)

    def __neg__(self):
        return SymReal(-self.t)

    def __pos__(self):
        return self

    def __pow__(self, n):
        if isinstance(n, (float, np.floating)) and float(n).is_integer():
            n = int(n)
        if isinstance(n, (int, np.integer)):
            n = int(n)
            if n >= 0:
                r = z3.RealVal(1)
                for _ in range(n):
                    r = r * self.t
                return SymReal(r)
            return SymReal(1 / (self ** (-n)).t)
        raise NotImplementedError(f"pow {n!r}")

    def __repr__(self):
        return f"S({self.t})"

    def __float__(self):
        raise TypeError("concretisation of symbolic real")

    def __bool__(self):
        raise TypeError("truth value of symbolic real")


def symarray(name, shape):
    a = np.empty(shape, dtype=object)
    for idx in np.ndindex(*shape):
        a[idx] = SymReal(z3.Real(name + "_" + "_".join(map(str, idx))))
    return a
