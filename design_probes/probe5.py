import os
os.environ["NUMBA_DISABLE_JIT"]="1"
import z3, time, numpy as np
from symex import *
import pde
import pde.grids.spherical as gs, pde.grids.base as gb
import importlib
ops = importlib.import_module("pde.backends.numba.operators.spherical_sym")
class NP:
    def __getattr__(self, k): return getattr(np, k)
    def isclose(self, a, b, **kw): return True
    pi = SymReal(z3.Real("pi"))
ops.np = NP(); gs.np = NP()
N = int(os.environ.get("N","3"))
rin = SymReal(z3.Real("rin")); dr = SymReal(z3.Real("dr"))
base = [rin.t >= 0, dr.t > 0, NP.pi.t > 3, NP.pi.t < 4]
def run():
    g = pde.SphericalSymGrid((rin, rin + N*dr), N)
    return g
Ctx.cur = Ctx([], base)
g = run()
print(g.discretization, g.axes_coords[0][:2])
vol = g.cell_volumes
print(vol[0])
op = ops.make_laplace(g, backend=pde.backends.get_backend("numba"), conservative=True)
arr = np.empty(N+2, dtype=object)
for i in range(N+2): arr[i] = SymReal(z3.Real(f"a{i}"))
arr[0]=arr[1]; arr[-1]=arr[-2]
out = np.empty(N, dtype=object)
op(arr, out)
tot = sum((out[i]*vol[i] for i in range(N)), SymReal(z3.RealVal(0)))
s = z3.Solver(); s.add(*base); s.add(*Ctx.cur.pc); s.add(tot.t != 0)
t0=time.time(); print("conservation:", s.check(), time.time()-t0)
# consistency: monomial (r-r_i)^2 at cell i=1 ; continuum laplace = 6  (f''+2/r f' at r_i => 2 + 0) -> for spherical: f=(r-ri)^2: f''=2, f'=0 => 2
i=1
ri = g.axes_coords[0][i]
for p, cont in [(0, 0), (1, None), (2, 2), (3, 0)]:
    arr = np.empty(N+2, dtype=object)
    for j in range(N+2):
        rj = ri + (j-1-i)*dr
        arr[j] = (rj - ri)**p if p>0 else SymReal(z3.RealVal(1))
    op(arr, out)
    if p == 1: cont_t = 2/ri
    else: cont_t = SymReal(z3.RealVal(cont))
    E = out[i] - cont_t
    s = z3.Solver(); s.set("timeout", 60000); s.add(*base); s.add(ri.t >= 1, dr.t <= z3.Q(1,2))
    s.add(z3.Or(E.t > 10*dr.t*dr.t, E.t < -10*dr.t*dr.t))
    t0=time.time(); print("order p=",p, s.check(), round(time.time()-t0,2))
print("pc:", Ctx.cur.pc)
s = z3.Solver(); s.add(*base); s.add(*Ctx.cur.pc); print("vacuity (expect sat):", s.check())
arr = np.empty(N+2, dtype=object)
for i in range(N+2): arr[i] = SymReal(z3.Real(f"a{i}"))
arr[0]=arr[1]; arr[-1]=-arr[-2]   # dirichlet at outer -> not conservative
op(arr, out)
tot = sum((out[i]*vol[i] for i in range(N)), SymReal(z3.RealVal(0)))
s = z3.Solver(); s.add(*base); s.add(*Ctx.cur.pc); s.add(tot.t != 0)
print("mutant (expect sat):", s.check()); print(s.model())
