import os
os.environ["NUMBA_DISABLE_JIT"]="1"
import z3, math, time
import numpy as np
from symex import *
import pde
from pde.solvers.controller import Controller
from pde.trackers.base import TrackerBase
import importlib; sb=importlib.import_module("pde.solvers.base"); ti=importlib.import_module("pde.trackers.interrupts"); sc=importlib.import_module("pde.solvers.controller")
import logging
logging.disable(logging.CRITICAL)

def symfloat(x):
    return x if isinstance(x, SymReal) else float(x)
for m in (sb, ti, sc):
    m.float = symfloat

class Rec(TrackerBase):
    def __init__(self, interrupts): super().__init__(interrupts); self.times=[]
    def handle(self, field, t): self.times.append(t)

class ZeroPDE(pde.PDEBase):
    def evolution_rate(self, state, t=0): return state.copy(data=0) if False else 0*state
    def make_evolution_rate(self, state, backend): 
        def rhs(data, t): 
            calls.append(t); return 0*data
        return rhs

K = int(os.environ.get("K", "3"))
dt = SymReal(z3.Real("dt")); T = SymReal(z3.Real("T")); D = SymReal(z3.Real("D")); ts=SymReal(z3.Real("ts"))
base = [dt.t > 0, T.t > 0, T.t <= K*dt.t, D.t >= dt.t, ts.t==0]
g = pde.UnitGrid([1])
calls=[]
def run():
    calls.clear()
    state = pde.ScalarField(g, np.array([SymReal(z3.Real("u0"))],dtype=object), dtype=object)
    eq = ZeroPDE()
    solver = pde.EulerSolver(eq, backend="numpy")
    tr = Rec(ti.ConstantInterrupts.__new__(ti.ConstantInterrupts))
    tr.interrupt.dt = D; tr.interrupt.t_start=None; tr.interrupt._t_next=None
    c = Controller(solver, t_range=(ts, ts+T), tracker=[tr])
    c.run(state, dt=dt)
    return c.info["t_final"], solver.info["steps"], list(tr.times), list(calls)
t0=time.time()
res, stats = explore(run, base, tmax=600)
print(stats)
bad=0

# check: |t_final - t_end| < dt ; t_final == ts + steps*dt ; tracker times strictly increasing
nv=0
for pc,(tf,steps,times,cl) in res:
    s=z3.Solver(); s.add(*base); s.add(*pc)
    tfz = tf.t if isinstance(tf, SymReal) else z3.RealVal(tf)
    stz = steps.t if isinstance(steps, SymReal) else z3.RealVal(steps)
    prop=[tfz == ts.t + stz*dt.t, tfz - (ts.t+T.t) < dt.t, (ts.t+T.t) - tfz < dt.t]
    for a,b in zip(times, times[1:]): prop.append(b.t > a.t)
    s.add(z3.Not(z3.And(*prop)))
    r=s.check()
    if str(r)!='unsat':
        nv+=1; print(r, s.model() if str(r)=='sat' else '')
print("violations", nv, "time", time.time()-t0)
