"""C02 — boundary conditions hold exactly at the discrete boundary.

The real parser (``grid.get_boundary_conditions``), the interpreted setter
(``bcs.set_ghost_cells``) and the compiled route's setter (``NumbaBackend.make_ghost_cell_setter``)
run on a field whose every entry (valid and ghost) is a symbol and on symbolic BC parameters;
afterwards the defining equation of the condition is asserted on the *result* at every face
point and tensor component, and everything that must stay untouched is compared with its input
symbol.
"""

from __future__ import annotations

import importlib
import itertools

import numpy as np

from symx import ops as O
from symx.values import install_float_shadow

from . import _ops as X

ID = "C02"
LEVEL = "model_checking"
FUNCTIONS = [
    "pde.grids.base:GridBase.get_boundary_conditions",
    "pde.grids.boundaries.axes:BoundariesList.from_data",
    "pde.grids.boundaries.axes:BoundariesList.set_ghost_cells",
    "pde.grids.boundaries.axis:BoundaryPair.set_ghost_cells",
    "pde.grids.boundaries.local:BCBase.from_data",
    "pde.grids.boundaries.local:ConstBCBase._parse_value",
    "pde.grids.boundaries.local:ConstBC1stOrderBase.set_ghost_cells",
    "pde.grids.boundaries.local:ConstBC2ndOrderBase.set_ghost_cells",
    "pde.grids.boundaries.local:DirichletBC.get_virtual_point_data",
    "pde.grids.boundaries.local:NeumannBC.get_virtual_point_data",
    "pde.grids.boundaries.local:MixedBC.get_virtual_point_data",
    "pde.grids.boundaries.local:CurvatureBC.get_virtual_point_data",
    "pde.grids.boundaries.local:_PeriodicBC.get_virtual_point_data",
    "pde.grids.boundaries.local:ExpressionBC.set_ghost_cells",
    "pde.backends.numba.backend:NumbaBackend.make_ghost_cell_setter",
    "pde.backends.numba._boundaries:make_virtual_point_evaluator",
    "pde.backends.numba._boundaries:_get_virtual_point_data_1storder",
    "pde.backends.numba._boundaries:_make_const1storder_virtual_point_evaluator",
    "pde.backends.numba._boundaries:_get_virtual_point_data_2ndorder",
    "pde.backends.numba._boundaries:_make_const2ndorder_virtual_point_evaluator",
    "pde.backends.numba._boundaries:_make_expression_virtual_point_evaluator",
]
ASSUMPTIONS = [
    "field entries and BC parameters in [-4, 4]; Robin coefficient gamma in [0, 4] (2 + gamma*dx != 0 is the documented solvability condition); concrete anisotropic dyadic geometry (dx = 1/2, 1/4, 2), plus symbolic spacing on 1-d/2-d grids",
    "equations are asserted in division-free form up to 1e-9*scale",
    "expression conditions use polynomial texts in the boundary coordinates and t (sympy runs concretely, its output function runs on symbols)",
]
STUBS = [
    "np.isnan/isfinite/isinf on symbolic values: finite (MixedBC with gamma = inf is outside)",
    "grid-constructor shims of C01 for the symbolic-spacing cases",
    "compiled route executed with NUMBA_DISABLE_JIT=1 (python source of the numba closures); linked values via nb.carray are not used here",
]
OUTSIDE = ["UserBC and _MPIBC (no condition to hold / needs MPI)", "user supplied python callables", "MixedBC with infinite coefficient", "grids with more than 3 cells per axis"]
BOUNDS = {"max_paths": 50, "tmax": 600.0, "query_timeout_ms": 20000}
EXPLANATION = "per configuration one symbolic execution of parser + setter; the affine map field -> ghost cells is compared with the defining equation for all field contents and parameters"

SC = 64


def bounds_text(tier):
    return "grids with 1-3 axes and 2-3 cells per axis (Cartesian, polar, spherical, cylindrical), ranks 0-2, every registered condition name on every side via rotation of the assignment"


_prep = {}


def _prepare(sym):
    X.prepare(sym)
    if _prep or not sym:
        return
    _prep["ok"] = True
    for name in ("pde.grids.boundaries.local", "pde.grids.boundaries.axis", "pde.grids.boundaries.axes", "pde.backends.numba._boundaries", "pde.backends.numba.backend", "pde.backends.numpy.backend", "pde.backends.base"):
        m = importlib.import_module(name)
        m.np = X._NpProxy(np)
        install_float_shadow(m)


GRIDS = {
    "cart1": {"kind": "cart", "shape": (3,)},
    "cart2": {"kind": "cart", "shape": (3, 2)},
    "cart3": {"kind": "cart", "shape": (2, 2, 2)},
    "cart2:periodic-x": {"kind": "cart", "shape": (3, 2), "periodic": (True, False)},
    "cart2:periodic-y": {"kind": "cart", "shape": (2, 3), "periodic": (False, True)},
    "unit2": {"kind": "unit", "shape": (2, 3)},
    "polar:hole": {"kind": "polar", "shape": (3,), "hole": True},
    "polar:nohole": {"kind": "polar", "shape": (3,), "hole": False},
    "sph:hole": {"kind": "sph", "shape": (3,), "hole": True},
    "sph:nohole": {"kind": "sph", "shape": (3,), "hole": False},
    "cyl:hole": {"kind": "cyl", "shape": (3, 2), "hole": True},
    "cyl:periodic_z": {"kind": "cyl", "shape": (2, 3), "hole": False, "periodic_z": True},
}

CONST_TYPES = ["value", "derivative", "mixed", "curvature"]
NORMAL_TYPES = ["normal_value", "normal_derivative", "normal_mixed", "normal_curvature"]
EXPR_TYPES = ["value_expression", "derivative_expression", "mixed_expression", "virtual_point"]


def _faces(grid):
    """non-periodic faces (axis, upper) that carry a local condition"""
    out = []
    for a in range(grid.num_axes):
        if grid.periodic[a]:
            continue
        for upper in (False, True):
            out.append((a, upper))
    return out


def _side_name(grid, a, upper):
    return f"{grid.axes[a]}{'+' if upper else '-'}"


def _make_value(env, name, fmt, tshape, bshape, lo=-4, hi=4):
    """BC parameter in the requested format → (value for the API, array broadcast to tshape+bshape)"""
    if fmt == "scalar":
        v = env.real(name, lo, hi)
        full = np.empty(tshape + bshape, dtype=object if env.sym else float)
        full[...] = v
        return v, full
    if fmt == "tensor":
        arr = env.array(name, tshape, lo, hi) if tshape else env.real(name, lo, hi)
        full = np.empty(tshape + bshape, dtype=object if env.sym else float)
        if tshape:
            full[...] = arr.reshape(tshape + (1,) * len(bshape))
        else:
            full[...] = arr
        return arr, full
    if fmt == "array":
        arr = env.array(name, tshape + bshape, lo, hi)
        return arr, arr
    raise ValueError(fmt)


def _build(env, cfg):
    """grid, symbolic field, bc spec and per-face expected parameters"""
    import pde

    _prepare(env.sym)
    spec = dict(GRIDS[cfg["grid"]], geometry=cfg.get("geometry", "dyadic"))
    grid, geom = X.make_grid(env, spec)
    rank = cfg["rank"]
    dim = grid.dim
    full_shape = (dim,) * rank + tuple(n + 2 for n in grid.shape)
    data_full = env.array("u", full_shape, -4, 4)
    cls = {0: pde.ScalarField, 1: pde.VectorField, 2: pde.Tensor2Field}[rank]
    field = cls(grid, dtype=object if env.sym else float)
    field._data_full[...] = data_full
    types = cfg["types"]
    rot = cfg.get("rot", 0)
    fmt = cfg.get("fmt", "scalar")
    faces = _faces(grid)
    bc_spec = {}
    expect = {}
    t = env.real("t", -2, 2)
    for k, (a, upper) in enumerate(faces):
        typ = types[(k + rot) % len(types)]
        normal = typ.startswith("normal_")
        tshape = (dim,) * (rank - 1 if normal else rank)
        bshape = tuple(n for i, n in enumerate(grid.shape) if i != a)
        f = fmt
        if f == "array" and not bshape:
            f = "tensor"
        if f == "tensor" and not tshape:
            f = "scalar"
        nm = f"p{a}{int(upper)}"
        side = _side_name(grid, a, upper)
        base = typ.replace("normal_", "")
        if typ in EXPR_TYPES:
            # polynomial expression in the boundary coordinates and time
            others = [grid.axes[i] for i in range(grid.num_axes) if i != a]
            text = "0.5 + t" + "".join(f" + {0.25 * (j + 1)}*{nme}*t - {nme}**2" for j, nme in enumerate(others))
            coords = [X.full_positions(geom, grid.shape)[i][1:-1] for i in range(grid.num_axes) if i != a]
            val = np.empty(bshape, dtype=object if env.sym else float)
            for idx in np.ndindex(*bshape):
                v = 0.5 + t
                for j, i in enumerate(idx):
                    x = coords[j][i]
                    v = v + (0.25 * (j + 1)) * x * t - x * x
                val[idx] = v
            if typ == "mixed_expression":
                bc_spec[side] = {"type": typ, "value": "0.5 + 0.25*t", "const": text}
                gam = np.empty(bshape, dtype=object if env.sym else float)
                gam[...] = 0.5 + 0.25 * t
                expect[(a, upper)] = ("mixed", False, gam, val)
            else:
                bc_spec[side] = {"type": typ, "value": text}
                expect[(a, upper)] = ({"value_expression": "value", "derivative_expression": "derivative", "virtual_point": "virtual_point"}[typ], False, val, None)
            continue
        if base == "mixed":
            gv, gfull = _make_value(env, nm + "g", f, tshape, bshape, 0, 4)
            cv, cfull = _make_value(env, nm + "c", f, tshape, bshape)
            bc_spec[side] = {"type": typ, "value": gv, "const": cv}
            expect[(a, upper)] = ("mixed", normal, gfull, cfull)
        else:
            v, vfull = _make_value(env, nm, f, tshape, bshape)
            bc_spec[side] = {"type": typ, "value": v}
            expect[(a, upper)] = (base, normal, vfull, None)
    for a in range(grid.num_axes):
        if grid.periodic[a]:
            bc_spec[grid.axes[a]] = cfg.get("periodic_type", "periodic")
    return grid, geom, field, data_full, bc_spec, expect, t


def _check_result(env, grid, geom, rank, R, R0, expect, cfg, tag):
    """assert the defining equations on the result R (R0 = input symbols)"""
    dim = grid.dim
    na = grid.num_axes
    off = rank
    # 1. valid cells untouched
    valid = (slice(None),) * off + (slice(1, -1),) * na
    env.same(f"{tag}:valid-cells-untouched", list(R[valid].flat), list(R0[valid].flat))
    touched = np.zeros(R.shape, dtype=bool)
    for (a, upper), (kind, normal, p1, p2) in expect.items():
        n = grid.shape[a]
        h = geom["h"][a]
        gi, c1, c2 = (n + 1, n, n - 1) if upper else (0, 1, 2)
        comp_iter = list(itertools.product(range(dim), repeat=rank))
        bshape = tuple(m for i, m in enumerate(grid.shape) if i != a)
        eqs = []
        for comp in comp_iter:
            if normal and comp[-1] != a:
                continue
            pcomp = comp[:-1] if normal else comp
            for bidx in np.ndindex(*bshape):
                full_idx = list(i + 1 for i in bidx)
                full_idx.insert(a, gi)
                ig = comp + tuple(full_idx)
                full_idx[a] = c1
                i1 = comp + tuple(full_idx)
                full_idx[a] = c2
                i2 = comp + tuple(full_idx)
                g, x1, x2 = R[ig], R[i1], R[i2]
                touched[ig] = True
                v = p1[pcomp + bidx]
                if kind == "value":
                    eqs.append((g + x1, 2 * v))
                elif kind == "derivative":
                    eqs.append((g - x1, h * v))
                elif kind == "mixed":
                    b = p2[pcomp + bidx]
                    eqs.append((2 * (g - x1) + v * h * (g + x1), 2 * h * b))
                elif kind == "curvature":
                    eqs.append((g - 2 * x1 + x2, h * h * v))
                elif kind == "virtual_point":
                    eqs.append((g, v))
        env.close(f"{tag}:{kind}{':normal' if normal else ''}:axis{a}:{'upper' if upper else 'lower'}", [e[0] for e in eqs], [e[1] for e in eqs], scale=SC)
    # periodic axes
    for a in range(na):
        if not grid.periodic[a]:
            continue
        n = grid.shape[a]
        sgn = -1 if cfg.get("periodic_type") == "anti-periodic" else 1
        lhs, rhs = [], []
        for idx in np.ndindex(*R.shape):
            sp = idx[off:]
            if any(sp[b] in (0, grid.shape[b] + 1) for b in range(na) if b != a):
                continue
            if sp[a] == 0:
                j = list(idx)
                j[off + a] = n
                lhs.append(R[idx])
                rhs.append(sgn * R[tuple(j)])
                touched[idx] = True
            elif sp[a] == n + 1:
                j = list(idx)
                j[off + a] = 1
                lhs.append(R[idx])
                rhs.append(sgn * R[tuple(j)])
                touched[idx] = True
        env.close(f"{tag}:{'anti-' if sgn < 0 else ''}periodic:axis{a}", lhs, rhs, scale=SC)
    # 2. every ghost entry that no condition addresses is untouched (other components of normal conditions,
    #    corner cells, the inner 'boundary' at r = 0 is handled by the grid's own condition and skipped)
    lhs, rhs = [], []
    r0_axis = False
    for idx in np.ndindex(*R.shape):
        sp = idx[off:]
        if all(1 <= sp[b] <= grid.shape[b] for b in range(na)) or touched[idx]:
            continue
        if r0_axis and sp[0] == 0:
            continue
        lhs.append(R[idx])
        rhs.append(R0[idx])
    if lhs:
        env.same(f"{tag}:unaddressed-ghost-entries-untouched", lhs, rhs)


def scenario_bc(env, cfg):
    grid, geom, field, data_full, bc_spec, expect, t = _build(env, cfg)
    rank = cfg["rank"]
    bcs = grid.get_boundary_conditions(bc_spec, rank=rank)
    R0 = np.array(data_full, copy=True)
    # interpreted route
    A = np.array(data_full, copy=True)
    bcs.set_ghost_cells(A, args={"t": t})
    _check_result(env, grid, geom, rank, A, R0, expect, cfg, "interpreted")
    env.observe("interpreted", A)
    # compiled route (python source of the numba closures)
    from pde.backends import get_backend

    setter = get_backend("numba").make_ghost_cell_setter(bcs)
    B = np.array(data_full, copy=True)
    if env.sym:
        setter(B, args={"t": t})
    else:
        from pde.backends.numba.utils import numba_dict

        setter(B, args=numba_dict(t=t))
    _check_result(env, grid, geom, rank, B, R0, expect, cfg, "compiled")
    # field API
    field.set_ghost_cells(bc_spec, args={"t": t})
    env.same("field.set_ghost_cells=bcs.set_ghost_cells", list(field._data_full.flat), list(A.flat))
    env.reach()


def scenario_aliases(env, cfg):
    """every registered name / accepted specification format leads to the same ghost cells as the canonical one"""
    import pde
    from pde.grids.boundaries.local import registered_boundary_condition_classes

    _prepare(env.sym)
    grid, geom = X.make_grid(env, dict(GRIDS["cart2"], geometry="dyadic"))
    data_full = env.array("u", tuple(n + 2 for n in grid.shape), -4, 4)
    v = env.real("v", -4, 4)
    g = env.real("g", 0, 4)

    def ghost(spec):
        bcs = grid.get_boundary_conditions(spec, rank=0)
        A = np.array(data_full, copy=True)
        bcs.set_ghost_cells(A)
        return A

    n_alias = 0
    for cname, cls in registered_boundary_condition_classes().items():
        names = list(getattr(cls, "names", []))
        if len(names) < 2 or names[0].startswith("normal") or "expr" in names[0] or names[0] in ("user", "virtual_point"):
            continue
        extra = {"const": g} if names[0] == "mixed" else {}
        ref = ghost({"x-": {"type": names[0], "value": v, **extra}, "x+": "derivative", "y": "derivative"})
        for alias in names[1:]:
            if alias == "extrapolate":
                got = ghost({"x-": alias, "x+": "derivative", "y": "derivative"})
                ref0 = ghost({"x-": {"type": "curvature", "value": 0}, "x+": "derivative", "y": "derivative"})
                env.same(f"alias:{alias}", list(got.flat), list(ref0.flat))
            else:
                got = ghost({"x-": {"type": alias, "value": v, **extra}, "x+": "derivative", "y": "derivative"})
                env.same(f"alias:{alias}", list(got.flat), list(ref.flat))
            n_alias += 1
    env.prove("aliases-found", n_alias >= 4)
    # specification formats
    ref = ghost({"x-": {"value": v}, "x+": {"derivative": g}, "y-": {"value": v}, "y+": {"value": v}})
    formats = {
        "type-key": {"x-": {"type": "value", "value": v}, "x+": {"type": "derivative", "value": g}, "y": {"type": "value", "value": v}},
        "named-sides": {"left": {"value": v}, "right": {"derivative": g}, "bottom": {"value": v}, "top": {"value": v}},
        "wildcard": {"*": {"value": v}, "x+": {"derivative": g}},
        "axis-both-sides": {"x-": {"value": v}, "x+": {"derivative": g}, "y": {"value": v}},
        # the more specific key refines the less specific one, whatever the order in the dictionary
        "axis-refined-by-side": {"x": {"value": v}, "x+": {"derivative": g}, "y": {"value": v}},
        "side-then-axis-order": {"x+": {"derivative": g}, "y": {"value": v}, "x": {"value": v}},
        "wildcard-refined-by-axis-and-side": {"*": {"derivative": g}, "y": {"value": v}, "x-": {"value": v}},
    }
    for name, spec in formats.items():
        env.same(f"format:{name}", list(ghost(spec).flat), list(ref.flat))
    # string shortcuts
    env.same("format:string-all-sides", list(ghost("neumann").flat), list(ghost({"*": {"derivative": 0}}).flat))
    env.same("format:auto_periodic_neumann-nonperiodic", list(ghost("auto_periodic_neumann").flat), list(ghost({"*": {"derivative": 0}}).flat))
    env.same("format:auto_periodic_dirichlet-nonperiodic", list(ghost("auto_periodic_dirichlet").flat), list(ghost({"*": {"value": 0}}).flat))
    env.same("format:auto_periodic_curvature-nonperiodic", list(ghost("auto_periodic_curvature").flat), list(ghost({"*": {"curvature": 0}}).flat))
    env.reach()


def _case(name, **cfg):
    return {"name": name, "scenario": "scenario_bc", "cfg": cfg}


def cases(tier, seed):
    q = tier == "quick"
    out = [{"name": "aliases-and-formats", "scenario": "scenario_aliases", "cfg": {}}]
    for gname in GRIDS:
        spec = GRIDS[gname]
        kind = spec["kind"]
        for rank in (0, 1, 2):
            if rank == 2 and gname in ("cart3",) and q:
                continue
            types = CONST_TYPES + (NORMAL_TYPES if rank >= 1 else [])
            fmts = ["scalar", "array"] if rank == 0 else ["scalar", "tensor", "array"]
            nrot = len(types)
            for rot in range(nrot):
                fmt = fmts[rot % len(fmts)]
                if q and rank == 2 and rot % 2 == 1:
                    continue
                out.append(_case(f"{gname}:rank{rank}:rot{rot}:{fmt}", grid=gname, rank=rank, types=types, rot=rot, fmt=fmt))
            if not q:
                for fmt in fmts:
                    out.append(_case(f"{gname}:rank{rank}:rot0:{fmt}:all-formats", grid=gname, rank=rank, types=types, rot=0, fmt=fmt))
        if kind in ("cart", "unit"):
            for rot in range(len(EXPR_TYPES)):
                out.append(_case(f"{gname}:rank0:expression:rot{rot}", grid=gname, rank=0, types=EXPR_TYPES, rot=rot))
        if any(spec.get("periodic", ())) or spec.get("periodic_z"):
            out.append(_case(f"{gname}:rank1:anti-periodic", grid=gname, rank=1, types=CONST_TYPES, rot=1, fmt="scalar", periodic_type="anti-periodic"))
    for gname in ("cart1", "cart2"):
        out.append(_case(f"{gname}:rank0:symbolic-spacing", grid=gname, rank=0, types=CONST_TYPES, rot=0, fmt="scalar", geometry="sym"))
        out.append(_case(f"{gname}:rank1:symbolic-spacing", grid=gname, rank=1, types=CONST_TYPES + NORMAL_TYPES, rot=2, fmt="tensor", geometry="sym"))
    return out


CANARIES = [
    {
        "name": "neumann-ghost-sign",
        "case": "cart2:rank0:rot0:scalar",
        "patch": [("pde.grids.boundaries.local:NeumannBC.get_virtual_point_data", "const = dx * self.value", "const = -dx * self.value")],
        "expect": "interpreted:derivative",
    },
    {
        "name": "compiled-2nd-order-reads-wrong-support-point",
        "case": "cart2:rank0:rot1:array",
        "patch": [("pde.backends.numba._boundaries:_make_const2ndorder_virtual_point_evaluator", "return data[0][bc_idx] + data[1][bc_idx] * val1 + data[3][bc_idx] * val2", "return data[0][bc_idx] + data[1][bc_idx] * val1 + data[3][bc_idx] * val1")],
        "expect": "compiled:curvature",
    },
    {
        "name": "compiled-normal-reads-first-tensor-index",
        "case": "cart2:rank2:rot4:tensor",
        "patch": [("pde.backends.numba._boundaries:_make_const1storder_virtual_point_evaluator", "            if normal:\n                val_field = arr_1d[..., axis, index]\n            else:\n                val_field = arr_1d[..., index]\n            return const() + factor() * val_field", "            if normal:\n                val_field = arr_1d[axis, ..., index]\n            else:\n                val_field = arr_1d[..., index]\n            return const() + factor() * val_field")],
        "expect": "compiled",
    },
]
