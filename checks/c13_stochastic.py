"""C13 — stochastic steps add exactly the documented noise, reproducibly.

The real stochastic single-step closures (Euler-Maruyama, Milstein, semi-implicit) and the real
``SDEBase.make_noise_variance`` run on a symbolic state, symbolic dt and *symbolic normal draws*:
the random generator handed to the equation is a stub that returns fresh symbols xi_k and logs
every request (shape, order).  Cell volumes come from symbolic non-uniform geometry.
"""

from __future__ import annotations

import importlib

import numpy as np

from symx import ops as O
from symx.values import install_float_shadow

from . import _ops as X
from . import c06_steppers as S6
from . import c12_geometry as G

ID = "C13"
LEVEL = "model_checking"
FUNCTIONS = [
    "pde.solvers.euler:EulerSolver._make_single_step_fixed_dt_stochastic",
    "pde.solvers.milstein:MilsteinSolver._make_single_step_fixed_dt_stochastic",
    "pde.solvers.implicit:ImplicitSolver._make_single_step_fixed_dt_stochastic",
    "pde.pdes.base:SDEBase.make_noise_variance",
    "pde.pdes.base:SDEBase.is_sde",
    "pde.pdes.base:PDEBase._noise_drift_factor",
    "pde.backends.numpy.backend:NumpyBackend.make_gaussian_noise",
    "pde.backends.numba.backend:NumbaBackend.make_gaussian_noise",
    "pde.solvers.base:SolverBase._make_inner_stepper",
]
ASSUMPTIONS = [
    "test equation du/dt = a*u + c (cellwise, a = 1/2 concrete, c symbolic) derived from SDEBase; variances: scalar, per tensor component, per field of a collection (concrete numbers, they pass through float arrays in make_noise_variance), and field dependent var(u) = s0 + s1*u^2 with symbolic s0, s1 through an overridden make_noise_variance",
    "state in [-2, 2], dt in [1/64, 1/2], draws xi in [-4, 4]; geometry symbolic (SphericalSymGrid with inner radius in [1/4, 3], spacing in [1/4, 1]) so that cell volumes are non-uniform symbols, plus a uniform Cartesian grid",
    "noise amplitude asserted in squared form (increment^2 * V = var * dt * xi^2) together with the sign of xi; sqrt() introduces fresh non-negative symbols with rho^2 = argument",
    "numba backend: np.random.randn inside pde.backends.numba.backend is replaced by the same symbolic stub (the statistical quality of numba's generator is outside)",
]
STUBS = G.STUBS + ["rng.standard_normal(shape) / np.random.randn(*shape): fresh symbols xi_k, call log", "float() identity in solver modules"]
OUTSIDE = ["statistical properties of the generators", "jax/torch backends", "more than 3 consecutive steps"]
BOUNDS = {"max_paths": 50, "tmax": 600.0, "query_timeout_ms": 30000}
EXPLANATION = "one real stochastic step (and n-step runs) with symbolic draws: the increment is compared with the documented formula for all states, dt and draws"
SC = 4096


def bounds_text(tier):
    return "grids with 2-3 cells; scalar, vector and collection states; 1-3 steps"


class Draws:
    def __init__(self, env):
        self.env = env
        self.log = []  # shapes in request order
        self.values = []

    def draw(self, shape):
        shape = tuple(shape) if not isinstance(shape, int) else (shape,)
        k = len(self.log)
        self.log.append(shape)
        arr = self.env.array(f"xi{k}", shape, -4, 4)
        self.values.append(arr)
        return arr


def _make_rng(env, draws):
    class Rng(np.random.Generator):
        def __init__(self):
            super().__init__(np.random.PCG64(0))

        def standard_normal(self, size=None, *a, **k):
            return draws.draw(() if size is None else size)

        def normal(self, loc=0.0, scale=1.0, size=None):
            return loc + scale * draws.draw(() if size is None else size)

    return Rng()


_prep = {}


def _prepare(env, draws):
    G._prepare(env)
    S6._prepare(env.sym)
    nbb = importlib.import_module("pde.backends.numba.backend")
    if not isinstance(nbb.np, X._NpProxy):
        nbb.np = X._NpProxy(np)

    class RandomProxy:
        def __getattr__(self, k):
            return getattr(np.random, k)

        def randn(self, *shape):
            return draws.draw(shape)

    nbb.np.random = RandomProxy() if env.sym else np.random
    if env.sym:
        for name in ("pde.pdes.base", "pde.solvers.milstein", "pde.solvers.euler", "pde.solvers.implicit", "pde.backends.numpy.backend"):
            m = importlib.import_module(name)
            if hasattr(m, "np") and not isinstance(m.np, X._NpProxy):
                m.np = X._NpProxy(np)
            install_float_shadow(m)


def _make_sde(env, a, c, noise, interp, rng, fielddep=None):
    import pde
    from pde.pdes.base import SDEBase

    class TestSDE(SDEBase):
        def evolution_rate(self, state, t=0):
            res = state.copy()
            res.data = a * state.data + c
            return res

        def make_evolution_rate(self, state, backend):
            def rhs(data, t):
                return a * data + c

            return rhs

    if fielddep is not None:
        s0, s1 = fielddep

        class TestSDE(TestSDE):  # noqa: F811
            @property
            def is_sde(self):
                return True

            def make_noise_variance(self, state, *, backend, ret_diff=False):
                if ret_diff:

                    def var(data, t):
                        return s0 + s1 * data * data, 2 * s1 * data

                else:

                    def var(data, t):
                        return s0 + s1 * data * data

                return var

    return TestSDE(noise=noise, noise_interpretation=interp, rng=rng)


ALPHA = {"ito": 0, "stratonovich": 0.5, "anti-ito": 1}


def _sqrt(x):
    return x.sqrt() if hasattr(x, "sqrt") else float(np.sqrt(x))


def scenario_step(env, cfg):
    import pde

    draws = Draws(env)
    _prepare(env, draws)
    env.nonlinear()
    env.exact_first_ms = 15000
    gname = cfg["grid"]
    geo = "sym" if (cfg.get("state", "scalar") == "scalar" and cfg.get("noise") != "fielddep" and cfg.get("n", 1) == 1) else "dyadic"  # (field-dependent variance: concrete non-uniform volumes keep the query within reach)
    if gname == "sph":
        grid, geom = X.make_grid(env, {"kind": "sph", "shape": (2,), "hole": True, "geometry": geo, "hmin": 0.25, "hmax": 1, "rin_lo": 0.25})
    else:
        grid, geom = X.make_grid(env, {"kind": "cart", "shape": (2,), "geometry": geo, "hmin": 0.25, "hmax": 1})
    dt_ = object if env.sym else float
    kind = cfg.get("state", "scalar")
    dim = grid.dim
    if kind == "scalar":
        u0 = env.array("u", grid.shape, -2, 2)
        state = pde.ScalarField(grid, np.array(u0, copy=True), dtype=dt_)
    elif kind == "vector":
        u0 = env.array("u", (dim,) + grid.shape, -2, 2)
        state = pde.VectorField(grid, np.array(u0, copy=True), dtype=dt_)
    else:
        ua = env.array("ua", grid.shape, -2, 2)
        ub = env.array("ub", (dim,) + grid.shape, -2, 2)
        uc = env.array("uc", grid.shape, -2, 2)
        state = pde.FieldCollection([pde.ScalarField(grid, ua, dtype=dt_), pde.VectorField(grid, ub, dtype=dt_), pde.ScalarField(grid, uc, dtype=dt_)], dtype=dt_)
        u0 = np.array(state.data, copy=True)
    a = 0.5
    c = env.real("c", -2, 2)
    dt = env.real("dt", 1 / 64, 1 / 2)
    interp = cfg.get("interp", "ito")
    fielddep = None
    ncomp = u0.shape[0] if u0.ndim > grid.num_axes else 1
    if cfg.get("noise") == "fielddep":
        fielddep = (0.5, 0.25)
        noise = 1.0
        var_of = lambda comp, x: (fielddep[0] + fielddep[1] * x * x, 2 * fielddep[1] * x)  # noqa: E731
    elif cfg.get("noise") == "percomp":
        if kind == "collection":
            noise = [0.5, 2.0, 0.125]
            per = [0.5] + [2.0] * dim + [0.125]
        else:
            noise = [0.5 * (k + 1) for k in range(ncomp)]
            per = list(noise)
        var_of = lambda comp, x: (per[comp], 0)  # noqa: E731
    elif cfg.get("noise") == "zero":
        noise = 0
        var_of = lambda comp, x: (0, 0)  # noqa: E731
    else:
        noise = 0.75
        var_of = lambda comp, x: (0.75, 0)  # noqa: E731
    rng = _make_rng(env, draws)
    eq = _make_sde(env, a, c, noise, interp, rng, fielddep)
    sname = cfg["solver"]
    n = cfg.get("n", 1)
    backend = cfg.get("backend", "numpy")
    if sname == "euler":
        solver = pde.EulerSolver(eq, backend=backend)
    elif sname == "milstein":
        from pde.solvers.milstein import MilsteinSolver

        solver = MilsteinSolver(eq, backend=backend)
    else:
        solver = pde.ImplicitSolver(eq, backend=backend, maxiter=2, maxerror=float("inf"))
    stepper = solver.make_stepper(state, dt)
    stepper(state, 0, n * dt)
    got = np.array(state.data, copy=True)
    vols = np.broadcast_to(np.asarray(grid.cell_volumes, dtype=dt_), grid.shape)
    alpha = ALPHA[interp]
    is_sde = cfg.get("noise") != "zero"
    # --- draws: exactly one request per step, of the full data shape, in order
    want_draws = n if is_sde else 0
    env.prove("one-draw-of-the-full-data-shape-per-step", len(draws.log) == want_draws and all(tuple(s) == tuple(u0.shape) for s in draws.log))
    if len(draws.log) != want_draws:
        return
    # --- reference recursion
    u = np.array(u0, copy=True)
    flat_shape = u.shape
    cur = u
    lhs, rhs, signs = [], [], []
    for k in range(n):
        xi = draws.values[k] if is_sde else None
        new = np.empty(flat_shape, dtype=object)
        for idx in np.ndindex(*flat_shape):
            comp = idx[0] if len(flat_shape) > grid.num_axes else 0
            cell = idx[-grid.num_axes :]
            x = cur[idx]
            var, dvar = var_of(comp, x)
            V = vols[cell]
            det = x + dt * (a * x + c)
            drift = 0.5 * alpha * dt * dvar / V
            if sname == "milstein":
                # Milstein: drift term of the interpretation plus 1/4 var'/V (dW^2 - dt), dW = sqrt(dt) xi
                corr = 0.25 * dvar / V * (dt * xi[idx] * xi[idx] - dt) if is_sde else 0
            else:
                corr = 0
            if sname == "implicit":
                # semi-implicit: the increment is added to the state the fixed-point iteration starts from
                pass
            new[idx] = (det, drift + corr, var, V, idx)
        # compare step by step only for n == 1 (closed form); for n > 1 build the reference state
        nxt = np.empty(flat_shape, dtype=dt_)
        for idx in np.ndindex(*flat_shape):
            det, extra, var, V, _ = new[idx]
            if is_sde:
                # sqrt(var*dt/V) factorised as sqrt(dt)*sqrt(var/V) (equal for non-negative arguments; the squared
                # form below checks the product independently of the factorisation)
                inc = _sqrt(dt) * _sqrt(var * (1 / V)) * xi[idx]
            else:
                inc = 0
            if sname == "implicit":
                x = cur[idx]
                st = x + inc
                x0 = st + dt * (a * x + c)
                nxt[idx] = st + dt * (a * x0 + c)
            else:
                nxt[idx] = det + extra + inc
        cur = nxt
    env.close(f"state-after-{n}-step(s)=documented-update", list(got.flat), list(cur.flat), scale=SC)
    if n == 1 and is_sde and sname != "implicit" and not (cfg.get("noise") == "fielddep" and gname == "sph"):
        # squared form with the sign of the draw (independent of how the square roots are taken)
        xi = draws.values[0]
        for idx in np.ndindex(*flat_shape):
            det, extra, var, V, _ = new[idx]
            r = got[idx] - det - extra
            lhs.append(r * r * V)
            rhs.append(var * dt * xi[idx] * xi[idx])
            signs.append(r * xi[idx] >= -1e-9)
        env.close("noise-increment^2*V=var*dt*xi^2", lhs, rhs, scale=SC * 16)
        env.prove("noise-increment-has-the-sign-of-the-draw", O.land(*signs))
    if not is_sde and sname != "implicit":
        det_only = np.array(u0, copy=True)
        for _ in range(n):
            det_only = det_only + dt * (a * det_only + c)
        env.close("vanishing-variance-gives-the-deterministic-result", list(got.flat), list(det_only.flat), scale=SC)
    env.observe("got", got)
    env.reach(hints=[{"dr": 0.5, "rin": 1, "dx0": 0.5, "x0_0": 0, "dt": 0.25}])


def scenario_reproducible(env, cfg):
    """seeded numpy-backend runs are bit-reproducible and use exactly the generator's successive draws (concrete replay)"""
    import pde

    grid = pde.SphericalSymGrid((0.5, 2), 4)
    res = []
    for seed in (7, 7, 8):
        eq = pde.DiffusionPDE(diffusivity=0.1, noise=0.3, rng=np.random.default_rng(seed))
        state = pde.ScalarField(grid, 1.0)
        out = eq.solve(state, t_range=5 * 0.01, dt=0.01, backend="numpy", tracker=None, solver="euler")
        res.append(out.data.copy())
    env.prove("same-seed-same-bits", bool(np.array_equal(res[0], res[1])))
    env.prove("different-seed-different-result", not bool(np.array_equal(res[0], res[2])))
    # exactly the successive draws of the generator
    rng = np.random.default_rng(7)
    u = np.full(grid.shape, 1.0)
    f = pde.ScalarField(grid, 1.0)
    eq = pde.DiffusionPDE(diffusivity=0.1, noise=0.3)
    for _ in range(5):
        f.data = u
        rate = eq.evolution_rate(f).data
        xi = rng.standard_normal(grid.shape)
        u = u + 0.01 * rate + np.sqrt(0.01) * np.sqrt(0.3 / grid.cell_volumes) * xi
    env.prove("trajectory=documented-recursion-on-the-generator's-successive-draws", bool(np.allclose(u, res[0], rtol=1e-12, atol=1e-13)))


def _case(name, **cfg):
    return {"name": name, "scenario": "scenario_step", "cfg": cfg}


def cases(tier, seed):
    q = tier == "quick"
    out = []
    for grid in ("sph", "cart"):
        for solver in ("euler", "milstein", "implicit"):
            for noise in ("scalar", "zero"):
                out.append(_case(f"{solver}:{grid}:scalar-state:noise={noise}", grid=grid, solver=solver, noise=noise))
            if solver != "implicit":
                for interp in ("ito", "stratonovich", "anti-ito"):
                    out.append(_case(f"{solver}:{grid}:field-dependent-variance:{interp}", grid=grid, solver=solver, noise="fielddep", interp=interp))
            out.append(_case(f"{solver}:{grid}:vector-state:per-component", grid=grid, solver=solver, noise="percomp", state="vector"))
            out.append(_case(f"{solver}:{grid}:collection:per-field", grid=grid, solver=solver, noise="percomp", state="collection"))
            out.append(_case(f"{solver}:{grid}:collection:shared-variance", grid=grid, solver=solver, noise="scalar", state="collection"))
    for solver in ("euler", "milstein"):
        out.append(_case(f"{solver}:sph:n=2:scalar", grid="sph", solver=solver, noise="scalar", n=2))
        out.append(_case(f"{solver}:sph:numba:scalar", grid="sph", solver=solver, noise="scalar", backend="numba"))
        out.append(_case(f"{solver}:cart:numba:collection", grid="cart", solver=solver, noise="percomp", state="collection", backend="numba"))
    if not q:
        out.append(_case("euler:cart:n=2:field-dependent", grid="cart", solver="euler", noise="fielddep", n=2, interp="stratonovich"))
    for c_ in out:
        if ":numba:" in c_["name"]:
            c_["validate_paths"] = 0  # the compiled generator cannot be fed the model's draws
    out.append({"name": "reproducible:numpy-seeded", "scenario": "scenario_reproducible", "cfg": {}, "validate_paths": 0})
    return out


CANARIES = [
    {
        "name": "euler-variance-evaluated-after-the-deterministic-update",
        "case": "euler:cart:field-dependent-variance:stratonovich",
        "patch": [("pde.solvers.euler:EulerSolver._make_single_step_fixed_dt_stochastic", "        state_data += dt * evolution_rate\n", "        state_data += dt * evolution_rate\n        if use_noise_variance and has_noise_drift_term:\n            noise_var_field, noise_var_diff_field = noise_var(state_data, t)\n")],
        "expect": "documented-update|increment",
    },
    {
        "name": "noise-amplitude-wrong-power-of-cell-volume",
        "case": "euler:sph:scalar-state:noise=scalar",
        "patch": [("pde.solvers.euler:EulerSolver._make_single_step_fixed_dt_stochastic", "state_data += dt_sqrt * nx.sqrt(noise_var_field * inv_cell) * dW", "state_data += dt_sqrt * nx.sqrt(noise_var_field) * inv_cell * dW")],
        "expect": "documented-update|increment",
    },
    {
        "name": "collection-variance-offset-by-field-index",
        "case": "euler:sph:collection:per-field",
        "patch": [("pde.pdes.base:SDEBase.make_noise_variance", "noise_vars[state._slices[i]] = var", "noise_vars[i : i + grid.dim ** state[i].rank] = var")],
        "expect": "documented-update|increment",
    },
]
