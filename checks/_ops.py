"""Shared infrastructure for the operator/boundary-condition checks (C01, C02, C03, C05, ...).

* grids with symbolic or concrete geometry built through the real constructors
* shims that let the real constructors / scipy-based operators run on symbolic numbers
* sparse Laurent polynomials and the continuum differential operators of the four
  coordinate systems written from the mathematics (the independent oracle of C01)
"""

from __future__ import annotations

import importlib
import itertools
from fractions import Fraction as F

import numpy as np

from symx.values import SymComplex, SymReal, install_float_shadow, is_sym

# ----------------------------------------------------------------------------- shims

_prepared = {}


class _LinalgProxy:
    def __init__(self, la):
        self._la = la

    def __getattr__(self, k):
        return getattr(self._la, k)

    exact = False

    def norm(self, x, *a, **k):
        if isinstance(x, np.ndarray) and x.dtype == object and self.exact:
            axis = k.get("axis", a[1] if len(a) > 1 else None)
            if axis in (None, -1) and (x.ndim == 1 or axis == -1):
                if x.ndim == 1:
                    s = 0
                    for v in x:
                        s = s + v * v
                    return s.sqrt() if isinstance(s, SymReal) else float(s) ** 0.5
                out = np.empty(x.shape[:-1], dtype=object)
                for idx in np.ndindex(*x.shape[:-1]):
                    s = 0
                    for v in x[idx]:
                        s = s + v * v
                    out[idx] = s.sqrt() if isinstance(s, SymReal) else float(s) ** 0.5
                return out
        if isinstance(x, np.ndarray) and x.dtype == object:
            # only used for messages in the analysed code: an unconstrained non-negative symbol
            from symx.values import _State
            import z3

            p = _State.ctx
            p.fresh_n += 1
            v = z3.Real(f"_norm{p.fresh_n}")
            p.add_assumption(v >= 0)
            return SymReal(v)
        return self._la.norm(x, *a, **k)


class _NpProxy:
    """numpy proxy for modules whose constructors force ``dtype=double`` onto their arguments"""

    def __init__(self, np_mod):
        self._np = np_mod
        self.linalg = _LinalgProxy(np_mod.linalg)

    def __getattr__(self, k):
        return getattr(self._np, k)

    @staticmethod
    def _has_sym(x):
        if is_sym(x):
            return True
        if isinstance(x, np.ndarray):
            return x.dtype == object
        if isinstance(x, (list, tuple)):
            return any(_NpProxy._has_sym(y) for y in x)
        return False

    def array(self, obj, *a, **kw):
        if self._has_sym(obj):
            dt = kw.get("dtype", a[0] if a else None)
            if dt is None or np.issubdtype(np.dtype(dt) if dt is not object else np.dtype(object), np.floating) or dt is object:
                kw = dict(kw)
                kw["dtype"] = object
                return self._np.array(obj, *a[1:], **kw)
        return self._np.array(obj, *a, **kw)

    lift_double = False  # set by a scenario: asarray(<concrete numbers>, dtype=double) gives an object array (exact values)

    def asarray(self, obj, *a, **kw):
        if self._has_sym(obj):
            kw = dict(kw)
            kw.pop("dtype", None)
            return self._np.asarray(obj, dtype=object, **kw)
        res = self._np.asarray(obj, *a, **kw)
        if self.lift_double and res.dtype == np.float64 and (kw.get("dtype", a[0] if a else None) in (np.double, float)):
            # the code under test converts its argument to double and then stores symbolic results in it
            return res.astype(object)
        return res

    def asanyarray(self, obj, *a, **kw):
        return self.asarray(obj, *a, **kw)

    def isclose(self, a, b, *args, **kw):
        if self._has_sym(a) or self._has_sym(b):
            # geometric self-checks of the constructors (assert np.isclose(rl[0], r_min)): evaluated as a
            # branch on exact equality up to the default tolerances
            rtol = kw.get("rtol", 1e-5)
            atol = kw.get("atol", 1e-8)
            if isinstance(a, np.ndarray) or isinstance(b, np.ndarray):
                # elementwise without numpy's object comparison loop (which would call bool() = fork on every element)
                aa, bb = np.broadcast_arrays(np.asarray(a, dtype=object), np.asarray(b, dtype=object))
                res = np.empty(aa.shape, dtype=object)
                for idx in np.ndindex(*aa.shape):
                    res[idx] = abs(aa[idx] - bb[idx]) <= atol + rtol * abs(bb[idx])
                return res
            return abs(a - b) <= atol + rtol * abs(b)
        return self._np.isclose(a, b, *args, **kw)

    def allclose(self, a, b, *args, **kw):
        if self._has_sym(a) or self._has_sym(b):
            r = self.isclose(np.asarray(a, dtype=object), np.asarray(b, dtype=object), *args, **kw)
            return all(bool(x) for x in np.asarray(r, dtype=object).flat)
        return self._np.allclose(a, b, *args, **kw)

    def issubdtype(self, a, b):
        return self._np.issubdtype(a, b)

    def empty(self, shape, dtype=float, **kw):
        """uninitialised memory of object arrays = fresh unconstrained symbols (not None)"""
        arr = self._np.empty(shape, dtype=dtype, **kw)
        if arr.dtype == object:
            from symx.values import _State

            p = _State.ctx
            import z3

            for idx in self._np.ndindex(*arr.shape):
                p.fresh_n += 1
                arr[idx] = SymReal(z3.Real(f"_junk{p.fresh_n}"))
        return arr

    def empty_like(self, a, dtype=None, **kw):
        if dtype is None and isinstance(a, np.ndarray) and a.dtype == object:
            return self.empty(a.shape, dtype=object)
        return self._np.empty_like(a, dtype=dtype, **kw)

    def _objfn(self, name, x, symval):
        if self._has_sym(x):
            if isinstance(x, np.ndarray):
                out = self._np.empty(x.shape, dtype=bool)
                for idx in self._np.ndindex(*x.shape):
                    out[idx] = symval if is_sym(x[idx]) else bool(getattr(self._np, name)(x[idx]))
                return out
            return symval
        return getattr(self._np, name)(x)

    def _elementwise(self, name, *args):
        """transcendental ufuncs on object arrays that mix python floats and symbols"""
        import math

        if not any(self._has_sym(a) or (isinstance(a, np.ndarray) and a.dtype == object) for a in args):
            return getattr(self._np, name)(*args)

        def one(*xs):
            if any(is_sym(x) for x in xs):
                x0 = xs[0] if is_sym(xs[0]) else SymReal.const(xs[0])
                return getattr(x0, name)(*xs[1:])
            return getattr(math, {"arctan2": "atan2", "arccos": "acos", "arcsin": "asin", "arctan": "atan"}.get(name, name))(*[float(x) for x in xs])

        if any(isinstance(a, np.ndarray) for a in args):
            bs = np.broadcast_arrays(*[np.asarray(a, dtype=object) for a in args])
            out = np.empty(bs[0].shape, dtype=object)
            for idx in np.ndindex(*bs[0].shape):
                out[idx] = one(*[b[idx] for b in bs])
            return out
        return one(*args)

    def divmod(self, a, b):
        if self._has_sym(a) or self._has_sym(b):
            aa, bb = np.broadcast_arrays(np.asarray(a, dtype=object), np.asarray(b, dtype=object))
            q = np.empty(aa.shape, dtype=object)
            r = np.empty(aa.shape, dtype=object)
            for idx in np.ndindex(*aa.shape):
                q[idx], r[idx] = divmod(aa[idx], bb[idx])
            return q, r
        return self._np.divmod(a, b)

    def cos(self, x):
        return self._elementwise("cos", x)

    def sin(self, x):
        return self._elementwise("sin", x)

    def sqrt(self, x):
        return self._elementwise("sqrt", x)

    def hypot(self, x, y):
        return self._elementwise("hypot", x, y)

    def arctan2(self, y, x):
        return self._elementwise("arctan2", y, x)

    def isnan(self, x):
        return self._objfn("isnan", x, False)

    def isinf(self, x):
        return self._objfn("isinf", x, False)

    def isfinite(self, x):
        return self._objfn("isfinite", x, True)

    def mean(self, a, *args, **kw):
        if self._has_sym(a) and not args and not kw:
            flat = list(self._np.asarray(a, dtype=object).flat)
            s = flat[0]
            for x in flat[1:]:
                s = s + x
            return s / len(flat)
        return self._np.mean(a, *args, **kw)


def _ndimage_correlate1d(orig):
    def correlate1d(input, weights, axis=-1, output=None, mode="reflect", cval=0.0, origin=0):  # noqa: A002
        if isinstance(input, np.ndarray) and input.dtype == object:
            w = list(weights)
            half = len(w) // 2
            a = np.moveaxis(input, axis, -1)
            out = np.zeros(a.shape, dtype=object)
            n = a.shape[-1]
            for i in range(half, n - half):
                s = 0
                for j, wj in enumerate(w):
                    if wj != 0:
                        s = s + wj * a[..., i + j - half]
                out[..., i] = s
            return np.moveaxis(out, -1, axis)
        return orig(input, weights, axis=axis, output=output, mode=mode, cval=cval, origin=origin)

    return correlate1d


def _ndimage_laplace(orig):
    def laplace(input, output=None, mode="reflect", cval=0.0):  # noqa: A002
        if isinstance(input, np.ndarray) and input.dtype == object:
            out = np.zeros(input.shape, dtype=object)
            inner = tuple(slice(1, -1) for _ in range(input.ndim))
            acc = 0
            for ax in range(input.ndim):
                lo = tuple(slice(0, -2) if k == ax else slice(1, -1) for k in range(input.ndim))
                hi = tuple(slice(2, None) if k == ax else slice(1, -1) for k in range(input.ndim))
                acc = acc + (input[lo] - 2 * input[inner] + input[hi])
            out[inner] = acc
            return out
        return orig(input, output=output, mode=mode, cval=cval)

    return laplace


def prepare(sym: bool):
    """install the shims needed to run grid constructors and scipy-based operators symbolically"""
    if _prepared:
        return
    _prepared["ok"] = True
    if not sym:
        return
    cart = importlib.import_module("pde.grids.cartesian")
    cub = importlib.import_module("pde.tools.cuboid")
    sph = importlib.import_module("pde.grids.spherical")
    cyl = importlib.import_module("pde.grids.cylindrical")
    gbase = importlib.import_module("pde.grids.base")
    for m in (cart, cub, sph, cyl):
        m.np = _NpProxy(np)
    install_float_shadow(cart, cub, sph, cyl, gbase)
    for name in ("pde.backends.numba.operators.spherical_sym", "pde.backends.numba.operators.polar_sym", "pde.backends.numba.operators.cylindrical_sym", "pde.backends.numba.operators.cartesian", "pde.backends.scipy.operators.common", "pde.backends.scipy.operators.cartesian"):
        m = importlib.import_module(name)
        m.np = _NpProxy(np)
        install_float_shadow(m)
    # Cuboid flips negative sizes with boolean masks; sizes are assumed positive in symbolic runs
    Cuboid = cub.Cuboid

    def _set_size(self, value):
        arr = np.array(value, dtype=self.pos.dtype if self.pos.dtype != object else object)
        if arr.dtype == object or self.pos.dtype == object:
            self._size = np.array(value, dtype=object)
            if self.pos.shape != self._size.shape:
                raise ValueError("size/pos mismatch")
            return
        Cuboid._orig_size_fset(self, value)

    if not hasattr(Cuboid, "_orig_size_fset"):
        Cuboid._orig_size_fset = Cuboid.size.fset
        Cuboid.size = property(Cuboid.size.fget, _set_size)
    # dtype inference: symbolic (object) arrays keep dtype=object instead of being forced to double
    misc = importlib.import_module("pde.tools.misc")
    if not hasattr(misc, "_symx_gcd"):
        misc._symx_gcd = misc.get_common_dtype

        def _has_obj(a):
            if isinstance(a, np.ndarray):
                return a.dtype == object
            if is_sym(a):
                return True
            if isinstance(a, (list, tuple)):
                return any(_has_obj(x) for x in a)
            return False

        def get_common_dtype(*args):
            if any(_has_obj(a) for a in args):
                return np.dtype(object)
            return misc._symx_gcd(*args)

        misc.get_common_dtype = get_common_dtype
        for name in ("pde.fields.tensorial", "pde.fields.vectorial"):
            importlib.import_module(name).get_common_dtype = get_common_dtype
    import scipy.ndimage as ndi

    if not hasattr(ndi, "_symx_patched"):
        ndi.correlate1d = _ndimage_correlate1d(ndi.correlate1d)
        ndi.laplace = _ndimage_laplace(ndi.laplace)
        ndi._symx_patched = True


# ----------------------------------------------------------------------------- grids


def make_grid(env, spec):
    """build a real grid; returns (grid, geom) where geom holds the declared geometry inputs

    spec: kind in {cart, unit, polar, sph, cyl}; shape; periodic (tuple of bool, Cartesian / bool z for cyl);
          geometry 'sym' (symbolic spacings/origins), 'dyadic' (fixed anisotropic dyadic values);
          hole (curvilinear): True → inner radius > 0
          hmax/hmin: bounds of the symbolic spacings
    """
    import pde

    prepare(env.sym)
    kind = spec["kind"]
    shape = tuple(spec["shape"])
    geo = spec.get("geometry", "dyadic")
    hmin, hmax = spec.get("hmin", 1 / 16), spec.get("hmax", 2)
    dy_vals = [0.5, 0.25, 2.0]
    org_vals = [-1.0, 0.5, 3.0]

    def spacing(name, k):
        if geo == "sym":
            return env.real(name, hmin, hmax, lo_open=(hmin == 0))
        return dy_vals[k]

    def origin(name, k, lo=-2, hi=2):
        if geo == "sym":
            return env.real(name, lo, hi)
        return org_vals[k]

    if kind == "unit":
        grid = pde.UnitGrid(list(shape), periodic=list(spec.get("periodic", [False] * len(shape))))
        return grid, {"x0": [0] * len(shape), "h": [1] * len(shape), "kind": "cart"}
    if kind == "cart":
        if spec.get("isotropic"):
            h = spacing("dx0", 0)
            hs = [h for _ in shape]
        else:
            hs = [spacing(f"dx{a}", a) for a in range(len(shape))]
        xs = [origin(f"x0_{a}", a) for a in range(len(shape))]
        bounds = [[xs[a], xs[a] + shape[a] * hs[a]] for a in range(len(shape))]
        grid = pde.CartesianGrid(bounds, list(shape), periodic=list(spec.get("periodic", [False] * len(shape))))
        return grid, {"x0": xs, "h": hs, "kind": "cart"}
    if kind in ("polar", "sph"):
        dr = spacing("dr", 0)
        if spec.get("hole"):
            rin = env.real("rin", spec.get("rin_lo", 1), spec.get("rin_hi", 3)) if geo == "sym" else 1.5
            radius = (rin, rin + shape[0] * dr)
        else:
            rin = 0
            radius = shape[0] * dr
        cls = pde.PolarSymGrid if kind == "polar" else pde.SphericalSymGrid
        grid = cls(radius, shape[0])
        return grid, {"x0": [rin], "h": [dr], "kind": kind}
    if kind == "cyl":
        dr = spacing("dr", 0)
        dz = spacing("dz", 1)
        z0 = origin("z0", 1)
        if spec.get("hole"):
            rin = env.real("rin", spec.get("rin_lo", 1), spec.get("rin_hi", 3)) if geo == "sym" else 1.5
            radius = (rin, rin + shape[0] * dr)
        else:
            rin = 0
            radius = shape[0] * dr
        grid = pde.CylindricalSymGrid(radius, (z0, z0 + shape[1] * dz), list(shape), periodic_z=bool(spec.get("periodic_z", False)))
        return grid, {"x0": [rin, z0], "h": [dr, dz], "kind": "cyl"}
    raise ValueError(kind)


def full_positions(geom, shape):
    """coordinates of all full-array points (ghost cells included) along each axis"""
    out = []
    for a, n in enumerate(shape):
        out.append([geom["x0"][a] + (i - F(1, 2)) * geom["h"][a] if not isinstance(geom["h"][a], float) else geom["x0"][a] + (i - 0.5) * geom["h"][a] for i in range(n + 2)])
    return out


def grid_dim(kind):
    return {"polar": 2, "sph": 3, "cyl": 3}[kind]


# ----------------------------------------------------------------------------- Laurent polynomials


class P:
    """sparse Laurent polynomial in nvar variables with rational coefficients"""

    __slots__ = ("n", "t")

    def __init__(self, n, terms=None):
        self.n = n
        self.t = {k: F(v) for k, v in (terms or {}).items() if v != 0}

    @staticmethod
    def mono(n, exps, coef=1):
        return P(n, {tuple(exps): F(coef)})

    @staticmethod
    def zero(n):
        return P(n)

    def __add__(self, o):
        if not isinstance(o, P):
            if o == 0:
                return self
            return NotImplemented
        t = dict(self.t)
        for k, v in o.t.items():
            t[k] = t.get(k, 0) + v
        return P(self.n, t)

    __radd__ = __add__

    def __neg__(self):
        return P(self.n, {k: -v for k, v in self.t.items()})

    def __sub__(self, o):
        return self + (-o)

    def __mul__(self, c):
        if isinstance(c, P):
            t = {}
            for k1, v1 in self.t.items():
                for k2, v2 in c.t.items():
                    k = tuple(a + b for a, b in zip(k1, k2))
                    t[k] = t.get(k, 0) + v1 * v2
            return P(self.n, t)
        return P(self.n, {k: v * F(c) for k, v in self.t.items()})

    __rmul__ = __mul__

    def d(self, var):
        t = {}
        for k, v in self.t.items():
            if k[var] != 0:
                kk = list(k)
                kk[var] -= 1
                t[tuple(kk)] = t.get(tuple(kk), 0) + v * k[var]
        return P(self.n, t)

    def mulvar(self, var, power):
        t = {}
        for k, v in self.t.items():
            kk = list(k)
            kk[var] += power
            t[tuple(kk)] = v
        return P(self.n, t)

    def over(self, var, power=1):
        return self.mulvar(var, -power)

    def __call__(self, point):
        s = 0
        for k, v in self.t.items():
            term = v if not any(isinstance(x, float) for x in point) else float(v)
            for x, e in zip(point, k):
                if e > 0:
                    for _ in range(e):
                        term = term * x
                elif e < 0:
                    for _ in range(-e):
                        term = term / x
            s = s + term
        return s

    def is_zero(self):
        return not self.t


# ----------------------------------------------------------------------------- continuum operators


def _lap_cart(f, d):
    s = P.zero(f.n)
    for a in range(d):
        s = s + f.d(a).d(a)
    return s


def continuum(kind, op, comps, dim):
    """continuum operator applied to a field given by its components (nested lists of P)

    kind: cart / polar / sph / cyl.  Component order = grid axes followed by symmetric axes:
    polar (r, phi), sph (r, theta, phi), cyl (r, z, phi).  Returns nested lists of P.
    """
    Z = None
    if kind == "cart":
        d = dim
        if op == "laplace":
            return _lap_cart(comps, d)
        if op == "gradient":
            return [comps.d(a) for a in range(d)]
        if op == "divergence":
            return sum((comps[a].d(a) for a in range(d)), P.zero(comps[0].n))
        if op == "vector_gradient":
            return [[comps[al].d(be) for be in range(d)] for al in range(d)]
        if op == "vector_laplace":
            return [_lap_cart(comps[al], d) for al in range(d)]
        if op == "tensor_divergence":
            return [sum((comps[al][be].d(be) for be in range(d)), P.zero(comps[0][0].n)) for al in range(d)]
        if op.startswith("d_d"):
            return comps.d(int(op[-1]))
        if op.startswith("d2_d"):
            a = int(op[-1])
            return comps.d(a).d(a)
    if kind == "polar":
        r = 0
        if op == "laplace":
            f = comps
            return f.d(r).d(r) + f.d(r).over(r)
        if op == "gradient":
            return [comps.d(r), P.zero(comps.n)]
        if op == "divergence":
            v = comps
            return v[0].d(r) + v[0].over(r)
        if op == "vector_gradient":
            v = comps
            return [[v[0].d(r), -v[1].over(r)], [v[1].d(r), v[0].over(r)]]
        if op == "tensor_divergence":
            T = comps
            return [T[0][0].d(r) + (T[0][0] - T[1][1]).over(r), T[1][0].d(r) + (T[1][0] + T[0][1]).over(r)]
    if kind == "sph":
        r = 0
        if op == "laplace":
            f = comps
            return f.d(r).d(r) + 2 * f.d(r).over(r)
        if op == "gradient":
            z = P.zero(comps.n)
            return [comps.d(r), z, z]
        if op == "divergence":
            v = comps
            return v[0].d(r) + 2 * v[0].over(r)
        if op == "vector_gradient":
            v = comps
            z = P.zero(v[0].n)
            return [[v[0].d(r), z, z], [z, v[0].over(r), z], [z, z, v[0].over(r)]]
        if op == "tensor_divergence":
            T = comps
            return [
                T[0][0].d(r) + 2 * (T[0][0] - T[2][2]).over(r),
                T[1][0].d(r) + 2 * T[1][0].over(r),
                T[2][0].d(r) + (2 * T[2][0] + T[0][2]).over(r),
            ]
        if op == "tensor_double_divergence":
            T = comps
            rr, pp = T[0][0], T[2][2]
            return rr.d(r).d(r) + 2 * rr.d(r).over(r) + 2 * (rr.d(r) - pp.d(r)).over(r) + 2 * (rr - pp).over(r, 2)
    if kind == "cyl":
        r, z = 0, 1

        def lap(f):
            return f.d(r).d(r) + f.d(r).over(r) + f.d(z).d(z)

        if op == "laplace":
            return lap(comps)
        if op == "gradient":
            return [comps.d(r), comps.d(z), P.zero(comps.n)]
        if op == "divergence":
            v = comps
            return v[0].d(r) + v[0].over(r) + v[1].d(z)
        if op == "vector_laplace":
            v = comps
            return [lap(v[0]) - v[0].over(r, 2), lap(v[1]), lap(v[2]) - v[2].over(r, 2)]
        if op == "vector_gradient":
            v = comps
            zz = P.zero(v[0].n)
            return [[v[0].d(r), v[0].d(z), -v[2].over(r)], [v[1].d(r), v[1].d(z), zz], [v[2].d(r), v[2].d(z), v[0].over(r)]]
        if op == "tensor_divergence":
            T = comps
            return [
                T[0][0].d(r) + T[0][1].d(z) + (T[0][0] - T[2][2]).over(r),
                T[1][0].d(r) + T[1][1].d(z) + T[1][0].over(r),
                T[2][0].d(r) + T[2][1].d(z) + (T[0][2] + T[2][0]).over(r),
            ]
    raise NotImplementedError(f"no continuum oracle for operator '{op}' on {kind} grids")


RANKS = {
    "laplace": (0, 0),
    "gradient": (0, 1),
    "gradient_squared": (0, 0),
    "divergence": (1, 0),
    "vector_gradient": (1, 2),
    "vector_laplace": (1, 1),
    "tensor_divergence": (2, 1),
    "tensor_double_divergence": (2, 0),
}


def monomials(nvar, maxdeg):
    out = []
    for e in itertools.product(range(maxdeg + 1), repeat=nvar):
        if sum(e) <= maxdeg:
            out.append(e)
    return out


def sample_field(comps, rank, positions, shape, ncomp, zero=0):
    """sample component polynomials on the full grid → array of shape (ncomp,)*rank + full shape"""
    full = tuple(n + 2 for n in shape)
    arr = np.empty((ncomp,) * rank + full, dtype=object)
    for cidx in itertools.product(range(ncomp), repeat=rank):
        p = comps
        for c in cidx:
            p = p[c]
        for idx in itertools.product(*[range(n) for n in full]):
            if p.is_zero():
                arr[cidx + idx] = zero
            else:
                arr[cidx + idx] = p([positions[a][i] for a, i in enumerate(idx)])
    return arr


def eval_field(comps, rank, positions, shape, ncomp):
    """evaluate component polynomials at valid cell centres → array (ncomp,)*rank + shape"""
    arr = np.empty((ncomp,) * rank + tuple(shape), dtype=object)
    for cidx in itertools.product(range(ncomp), repeat=rank):
        p = comps
        for c in cidx:
            p = p[c]
        for idx in itertools.product(*[range(n) for n in shape]):
            arr[cidx + idx] = 0 if p.is_zero() else p([positions[a][i + 1] for a, i in enumerate(idx)])
    return arr


def as_dtype(arr, sym):
    """object array in symbolic mode, float array otherwise"""
    if sym:
        return arr
    return np.array(arr, dtype=float)
