"""C04 — results never depend on what was computed earlier in the process.

Histories are sequences of requests to the caching entry points; the real cache code (hash_mutable,
cached_method, backend singletons, PDE._cache) runs unmodified.  The oracle is the *same last
request* evaluated right after every cache found in the process has been cleared (the
fresh-interpreter answer; replays use a genuinely fresh interpreter).  Field contents,
interpolation points and times are symbolic, so one history covers all contents.
"""

from __future__ import annotations

import gc
import itertools

import numpy as np

from symx import ops as O

from . import _ops as X
from . import c02_boundaries as B
from . import c16_interpolation as I

ID = "C04"
LEVEL = "model_checking"
FUNCTIONS = [
    "pde.tools.cache:hash_mutable",
    "pde.tools.cache:cached_method.__call__",
    "pde.backends.numba.backend:NumbaBackend.make_operator",
    "pde.grids.base:GridBase.make_operator",
    "pde.grids.base:GridBase.make_operator_no_bc",
    "pde.grids.base:GridBase._cache_hash",
    "pde.fields.datafield_base:DataFieldBase.make_interpolator",
    "pde.fields.datafield_base:DataFieldBase.interpolate",
    "pde.fields.base:FieldBase._data_full",
    "pde.fields.collection:FieldCollection.__init__",
    "pde.backends.numba.backend:NumbaBackend.make_interpolator",
    "pde.pdes.pde:PDE._prepare_cache",
    "pde.pdes.pde:PDE.evolution_rate",
    "pde.pdes.base:PDEBase.make_pde_rhs",
    "pde.backends.registry:BackendRegistry.get_backend",
]
ASSUMPTIONS = [
    "request alphabet: operator requests grid x {laplace, gradient_squared} x boundary condition on 7 grids (equal, differently spaced, shifted; Cartesian and spherical) with 8 boundary conditions whose attributes partly coincide (value 0/1, derivative 0/1, mixed, curvature 0, periodic); field-API operators; interpolations before/after the field's memory is re-linked (collection construction, _data_full assignment) or modified; class PDEs and expression PDEs with two parameter sets / two boundary-condition dicts / field-valued constants modified in place; evolution_rate, make_pde_rhs on both backends",
    "all ordered pairs of operator requests (quick) and triples over a reduced alphabet (thorough); BC values and parameters are concrete members of the alphabet (they are hashed by the real cache code), field contents / points / times symbolic",
    "oracle: the last request evaluated after clearing every per-object cache (_cache_methods of all live objects, PDE._cache); requests build their own grid/field objects as separate user code would",
    "make_array_constructor (raw address -> nb.carray) is modelled as a closure over the array object alive at creation ('the memory at that address')",
]
STUBS = I.STUBS
OUTSIDE = ["symbolic BC values inside cache keys (would need a model of hash)", "histories longer than the bound", "global config changes (excluded by the property)"]
BOUNDS = {"max_paths": 20, "tmax": 600.0, "query_timeout_ms": 20000}
EXPLANATION = "history result vs cache-cleared result of the same last request, as terms over symbolic field contents"
SC = 4096


def bounds_text(tier):
    return "all ordered pairs over ~56 operator requests per operator family (quick) / plus triples (thorough); ~40 interpolation/PDE histories"


def clear_all_caches():
    for o in gc.get_objects():
        try:
            d = getattr(o, "__dict__", None)
        except Exception:  # noqa: BLE001
            continue
        if isinstance(d, dict) and "_cache_methods" in d:
            try:
                d["_cache_methods"] = {}
            except Exception:  # noqa: BLE001
                pass
        if isinstance(d, dict) and "_cache" in d and isinstance(d["_cache"], dict) and o.__class__.__name__ in ("PDE", "ReactionDiffusionPDE"):
            d["_cache"] = {}


GRIDS = {
    "unit3": lambda pde: pde.UnitGrid([3]),
    "cart3:dx=.5": lambda pde: pde.CartesianGrid([[0, 1.5]], [3]),
    "cart3:dx=.5:shifted": lambda pde: pde.CartesianGrid([[1, 2.5]], [3]),
    "cart3:periodic": lambda pde: pde.CartesianGrid([[0, 1.5]], [3], periodic=True),
    "sph(1,2)": lambda pde: pde.SphericalSymGrid((1, 2), 3),
    "sph(2,3)": lambda pde: pde.SphericalSymGrid((2, 3), 3),
    "polar(1,2)": lambda pde: pde.PolarSymGrid((1, 2), 3),
}
BCS = {
    "value0": {"value": 0},
    "derivative0": {"derivative": 0},
    "value1": {"value": 1},
    "derivative1": {"derivative": 1},
    "mixed(1,0)": {"type": "mixed", "value": 1, "const": 0},
    "mixed(0,1)": {"type": "mixed", "value": 0, "const": 1},
    "curvature0": {"curvature": 0},
    "value_expression": {"value_expression": "1 + t"},
}


def _data(env):
    return env.array("u", (3,), -4, 4)


def request_operator(env, gname, op, bcname, route="make_operator"):
    import pde

    grid = GRIDS[gname](pde)
    bc = "periodic" if grid.periodic[0] else BCS[bcname]
    x = _data(env)
    dt = object if env.sym else float
    t = env.real("t", -2, 2)
    if route == "make_operator":
        fn = grid.make_operator(op, bc=bc, backend="numba")
        return np.array(fn(np.array(x, copy=True), args={"t": t} if env.sym else _nbdict(t)), copy=True)
    f = pde.ScalarField(grid, np.array(x, copy=True), dtype=dt)
    return np.array(f.apply_operator(op, bc=bc, args={"t": t}).data, copy=True)


def _nbdict(t):
    from pde.backends.numba.utils import numba_dict

    return numba_dict(t=t)


def scenario_operator_history(env, cfg):
    B._prepare(env.sym)
    I._prepare(env)
    hist = cfg["history"]
    clear_all_caches()
    fresh = request_operator(env, *hist[-1])
    clear_all_caches()
    for r in hist[:-1]:
        request_operator(env, *r)
    got = request_operator(env, *hist[-1])
    env.close("result-after-history=result-in-fresh-process", list(got.flat), list(fresh.flat), scale=SC)
    env.observe("got", got)
    env.reach()


def scenario_interpolation(env, cfg):
    """a cached interpolator must not keep reading memory the field no longer uses"""
    import pde

    I._prepare(env)
    clear_all_caches()
    grid = pde.UnitGrid([4])
    dt = object if env.sym else float
    a = env.array("a", (4,), -4, 4)
    b = env.array("b", (4,), -4, 4)
    p = env.real("p", 0.6, 3.4)
    f = pde.ScalarField(grid, np.array(a, copy=True), dtype=dt)
    how = cfg["how"]
    if cfg.get("warm", True):
        f.interpolate(np.array([p], dtype=dt))  # creates and caches the interpolator
    if how == "collection":
        c = pde.FieldCollection([f])  # re-links f's data to the collection's memory
        f.data[...] = b
    elif how == "collection-write-through-collection":
        c = pde.FieldCollection([f])
        c.data[0, :] = b
    elif how == "assign-data_full":
        full = np.empty(6, dtype=dt)
        full[1:-1] = b
        full[0] = full[-1] = 0
        f._data_full = full
    elif how == "assign-data":
        f.data = np.array(b, copy=True)
    elif how == "inplace":
        f.data[...] = b
    got = f.interpolate(np.array([p], dtype=dt))
    ref = pde.ScalarField(grid, np.array(b, copy=True), dtype=dt)
    clear_all_caches()
    want = ref.interpolate(np.array([p], dtype=dt))
    env.close("interpolation-reads-the-field's-current-contents", got, want, scale=SC)
    # interpolation with different options after each other
    f2 = pde.ScalarField(grid, np.array(a, copy=True), dtype=dt)
    v1 = f2.interpolate(np.array([p], dtype=dt), fill=0.5)
    v2 = f2.interpolate(np.array([p], dtype=dt))
    v3 = f2.interpolate(np.array([p], dtype=dt), bc={"value": 1})
    v4 = f2.interpolate(np.array([p], dtype=dt), bc={"derivative": 1})
    clear_all_caches()
    f3 = pde.ScalarField(grid, np.array(a, copy=True), dtype=dt)
    env.close("interpolate(bc=derivative)-after-other-requests=fresh", v4, f3.interpolate(np.array([p], dtype=dt), bc={"derivative": 1}), scale=SC)
    env.observe("got", got)
    env.reach()


def _pde_request(env, spec, x, t):
    import pde

    grid = pde.CartesianGrid([[0, 1.5]], [3])
    dt = object if env.sym else float
    kind = spec[0]
    state = pde.ScalarField(grid, np.array(x, copy=True), dtype=dt)
    if kind == "diffusion":
        eq = pde.DiffusionPDE(diffusivity=spec[1], bc=BCS[spec[2]])
    elif kind == "ks":
        eq = pde.KuramotoSivashinskyPDE(nu=spec[1], bc=BCS[spec[2]], bc_lap=BCS[spec[3]])
    elif kind == "expr":
        eq = pde.PDE({"c": spec[1]}, bc=BCS[spec[2]], consts=dict(spec[3]) if len(spec) > 3 and spec[3] else None)
    else:
        raise ValueError(kind)
    route = spec[-1]
    if route == "evolution_rate":
        return np.array(eq.evolution_rate(state, t).data, copy=True)
    rhs = eq.make_pde_rhs(state, backend=route)
    return np.array(rhs(np.array(x, copy=True), t), copy=True)


def scenario_pde_history(env, cfg):
    B._prepare(env.sym)
    I._prepare(env)
    x = _data(env)
    t = env.real("t", -2, 2)
    hist = cfg["history"]
    clear_all_caches()
    fresh = _pde_request(env, hist[-1], x, t)
    clear_all_caches()
    for r in hist[:-1]:
        _pde_request(env, r, x, t)
    got = _pde_request(env, hist[-1], x, t)
    env.close("rate-after-history=rate-in-fresh-process", list(got.flat), list(fresh.flat), scale=SC)
    env.observe("got", got)
    env.reach()


def scenario_pde_object_reuse(env, cfg):
    """one PDE object evaluated repeatedly: the second answer depends only on current contents"""
    import pde

    B._prepare(env.sym)
    I._prepare(env)
    dt = object if env.sym else float
    grid = pde.CartesianGrid([[0, 1.5], [0, 1]], [2, 2])
    x = env.array("u", (2, 2), -4, 4)
    s1 = env.array("s", (2, 2), -2, 2)
    s2 = env.array("r", (2, 2), -2, 2)
    source = pde.ScalarField(grid, np.array(s1, copy=True), dtype=dt)
    eq = pde.PDE({"c": "laplace(c) + src"}, bc="auto_periodic_neumann", consts={"src": source})
    state = pde.ScalarField(grid, np.array(x, copy=True), dtype=dt)
    clear_all_caches()
    eq.evolution_rate(state, 0)
    source.data = np.array(s2, copy=True)  # the constant field is modified in place between the requests
    got = np.array(eq.evolution_rate(state, 0).data, copy=True)
    clear_all_caches()
    src2 = pde.ScalarField(grid, np.array(s2, copy=True), dtype=dt)
    eq2 = pde.PDE({"c": "laplace(c) + src"}, bc="auto_periodic_neumann", consts={"src": src2})
    want = np.array(eq2.evolution_rate(state, 0).data, copy=True)
    env.close("second-evaluation-uses-the-constant-field's-current-contents", list(got.flat), list(want.flat), scale=SC)
    env.reach()


def _double(x):
    return 2 * x


def scenario_pde_shared_user_funcs(env, cfg):
    """two equations are handed the *same* `user_funcs` dictionary object; the second one's rate must not depend on the first"""
    import pde

    B._prepare(env.sym)
    I._prepare(env)
    dt = object if env.sym else float
    grid = pde.CartesianGrid([[0, 1.5]], [3])
    x = _data(env)
    t = env.real("t", -2, 2)
    bc1, bc2 = BCS[cfg["bc1"]], BCS[cfg["bc2"]]
    rhs_text = "laplace(c) + twice(c)"

    def rate(eq, route):
        state = pde.ScalarField(grid, np.array(x, copy=True), dtype=dt)
        if route == "evolution_rate":
            return np.array(eq.evolution_rate(state, t).data, copy=True)
        return np.array(eq.make_pde_rhs(state, backend=route)(np.array(x, copy=True), t), copy=True)

    clear_all_caches()
    fresh = rate(pde.PDE({"c": rhs_text}, bc=bc2, user_funcs={"twice": _double}), cfg["route2"])
    clear_all_caches()
    shared = {"twice": _double}
    eq1 = pde.PDE({"c": rhs_text}, bc=bc1, user_funcs=shared)
    rate(eq1, cfg["route1"])
    eq2 = pde.PDE({"c": rhs_text}, bc=bc2, user_funcs=shared)
    got = rate(eq2, cfg["route2"])
    env.close("rate-after-history=rate-in-fresh-process", list(got.flat), list(fresh.flat), scale=SC)
    env.prove("caller's-user_funcs-dictionary-unchanged", sorted(shared) == ["twice"])
    env.observe("got", got)
    env.reach()


def scenario_pde_object_two_grids(env, cfg):
    """one equation object (coordinate-dependent right-hand side) used on one grid and then on another one"""
    import pde

    B._prepare(env.sym)
    I._prepare(env)
    dt = object if env.sym else float
    grids = {
        "cart1": lambda: pde.CartesianGrid([[0, 1.5]], [3]),
        "cart2": lambda: pde.CartesianGrid([[0, 1.5], [0, 1]], [3, 2]),
        "sph": lambda: pde.SphericalSymGrid((1, 2), 3),
        "cyl": lambda: pde.CylindricalSymGrid((1, 2), (0, 1), (3, 2)),
    }
    rhs_text = {"cart1": "laplace(c) + x * c", "cart2": "laplace(c) + x * c", "sph": "laplace(c) + r * c", "cyl": "laplace(c) + r * c"}[cfg["second"]]
    t = env.real("t", -2, 2)

    def rate(eq, gname, route, tag):
        grid = grids[gname]()
        x = env.array(f"u{tag}", grid.shape, -4, 4)
        state = pde.ScalarField(grid, np.array(x, copy=True), dtype=dt)
        if route == "evolution_rate":
            return np.array(eq.evolution_rate(state, t).data, copy=True)
        return np.array(eq.make_pde_rhs(state, backend=route)(np.array(x, copy=True), t), copy=True)

    clear_all_caches()
    fresh = rate(pde.PDE({"c": rhs_text}, bc={"derivative": 0}), cfg["second"], cfg["route2"], "B")
    clear_all_caches()
    eq = pde.PDE({"c": rhs_text}, bc={"derivative": 0})
    text_before = dict(eq.expressions)
    rate(eq, cfg["first"], cfg["route1"], "A")
    got = rate(eq, cfg["second"], cfg["route2"], "B")
    env.close("rate-on-second-grid=rate-of-a-fresh-equation", list(got.flat), list(fresh.flat), scale=SC)
    env.prove("advertised-expressions-unchanged-by-use", dict(eq.expressions) == text_before)
    env.observe("got", got)
    env.reach()


def cases(tier, seed):
    q = tier == "quick"
    out = []
    reqs = []
    for g in GRIDS:
        for bcname in BCS:
            if "periodic" in g and bcname != "value0":
                continue
            reqs.append((g, "laplace", bcname, "make_operator"))
    # every ordered pair, batched per last request
    for last in reqs:
        firsts = [r for r in reqs if r != last]
        # histories of length 2: one case per (first-group, last) to keep processes few: chain all firsts before last
        # is NOT the same as pairs, so pairs are enumerated, grouped by the last request's grid
        for first in firsts:
            if q and not _interesting(first, last):
                continue
            out.append({"name": f"op-pair:{_rn(first)}->{_rn(last)}", "scenario": "scenario_operator_history", "cfg": {"history": [first, last]}, "validate_paths": 0})
    # field API and other operator after make_operator
    for bc1, bc2 in itertools.permutations(["value0", "derivative0", "value1", "curvature0"], 2):
        out.append({"name": f"op-pair:field-api:{bc1}->{bc2}", "scenario": "scenario_operator_history", "cfg": {"history": [("unit3", "laplace", bc1, "field"), ("unit3", "laplace", bc2, "field")]}, "validate_paths": 0})
        out.append({"name": f"op-pair:gradient_squared:{bc1}->{bc2}", "scenario": "scenario_operator_history", "cfg": {"history": [("unit3", "gradient_squared", bc1, "make_operator"), ("unit3", "gradient_squared", bc2, "make_operator")]}, "validate_paths": 0})
        out.append({"name": f"op-pair:mixed-routes:{bc1}->{bc2}", "scenario": "scenario_operator_history", "cfg": {"history": [("unit3", "laplace", bc1, "make_operator"), ("unit3", "laplace", bc2, "field")]}, "validate_paths": 0})
    if not q:
        small = [r for r in reqs if r[0] in ("unit3", "cart3:dx=.5", "sph(1,2)", "sph(2,3)") and r[2] in ("value0", "derivative0", "value1")]
        for h in itertools.permutations(small, 3):
            if h[0][0] == h[2][0] or h[1][0] == h[2][0]:
                out.append({"name": f"op-triple:{_rn(h[0])}->{_rn(h[1])}->{_rn(h[2])}", "scenario": "scenario_operator_history", "cfg": {"history": list(h)}, "validate_paths": 0})
    for how in ("collection", "collection-write-through-collection", "assign-data_full", "assign-data", "inplace"):
        for warm in (True, False):
            out.append({"name": f"interpolation:{how}:warm={warm}", "scenario": "scenario_interpolation", "cfg": {"how": how, "warm": warm}})
    pde_reqs = [
        ("diffusion", 1, "value0", "evolution_rate"), ("diffusion", 1, "derivative0", "evolution_rate"), ("diffusion", 0.5, "value0", "numba"), ("diffusion", 1, "value0", "numba"),
        ("diffusion", 1, "derivative0", "numba"), ("diffusion", 1, "derivative0", "numpy"),
        ("ks", 0.7, "derivative0", "value0", "numba"), ("ks", 0.7, "derivative0", "derivative0", "numba"), ("ks", 0.7, "value0", "derivative0", "evolution_rate"),
        ("expr", "laplace(c) + k", "value0", (("k", 1.0),), "numba"), ("expr", "laplace(c) + k", "value0", (("k", 2.0),), "numba"), ("expr", "laplace(c) + k", "derivative0", (("k", 1.0),), "numpy"),
        ("expr", "laplace(c) * t", "value1", None, "numba"), ("expr", "laplace(c) * t", "derivative1", None, "evolution_rate"),
    ]
    for first, last in itertools.permutations(pde_reqs, 2):
        out.append({"name": f"pde-pair:{_pn(first)}->{_pn(last)}", "scenario": "scenario_pde_history", "cfg": {"history": [first, last]}, "validate_paths": 0})
    out.append({"name": "pde-object-reuse:field-constant-modified-in-place", "scenario": "scenario_pde_object_reuse", "cfg": {}})
    for bc1, bc2 in (("value0", "derivative0"), ("derivative0", "value0"), ("value1", "value0")):
        for r1, r2 in (("numba", "numba"), ("numba", "evolution_rate"), ("numpy", "numba"), ("evolution_rate", "numpy")) if not q else (("numba", "numba"), ("numba", "evolution_rate"), ("numpy", "numba")):
            out.append({"name": f"pde-shared-user_funcs:{bc1}/{r1}->{bc2}/{r2}", "scenario": "scenario_pde_shared_user_funcs", "cfg": {"bc1": bc1, "bc2": bc2, "route1": r1, "route2": r2}, "validate_paths": 0})
    for first, second in (("cart2", "cart1"), ("cart1", "cart2"), ("cyl", "sph"), ("sph", "cyl")):
        for r1, r2 in (("numba", "numba"), ("evolution_rate", "numba"), ("numpy", "evolution_rate")):
            out.append({"name": f"pde-object-two-grids:{first}/{r1}->{second}/{r2}", "scenario": "scenario_pde_object_two_grids", "cfg": {"first": first, "second": second, "route1": r1, "route2": r2}, "validate_paths": 0})
    return out


def _interesting(first, last):
    """quick tier: pairs that coincide in grid class/shape or in some BC attribute"""
    g1, g2 = first[0], last[0]
    same_family = g1.split("(")[0].split(":")[0] == g2.split("(")[0].split(":")[0]
    b1, b2 = first[2], last[2]
    share = b1[-1] == b2[-1] or b1.rstrip("01") == b2.rstrip("01")
    return same_family and (share or g1 != g2)


def _rn(r):
    return f"{r[0]}/{r[2]}"


def _pn(r):
    return "/".join(str(x) for x in r if not isinstance(x, tuple)) + ("/" + ",".join(f"{k}={v}" for k, v in r[3]) if len(r) > 3 and isinstance(r[3], tuple) else "")


CANARIES = [
    {
        "name": "grid-cache-hash-ignores-position",
        "case": "op-pair:sph(1,2)/value0->sph(2,3)/value0",
        "patch": [("pde.grids.base:GridBase._cache_hash", "self.axes_bounds", "tuple(self.discretization)")],
        "expect": "fresh-process",
    },
]
