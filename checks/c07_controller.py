"""C07 — observation does not perturb a simulation; step and time accounting is exact."""

from __future__ import annotations

from symx import ops as O

from . import _controller as H

ID = "C07"
LEVEL = "model_checking"
FUNCTIONS = H.FUNCTIONS
ASSUMPTIONS = [
    "test equation du/dt = a*u + c on a one-cell grid (autonomous, so the state term does not depend on how the run is segmented); a = 0 in dimension-tracked runs, a = 1/2 otherwise",
    "symbolic-dt runs: 1/64 <= dt <= 64; multi-tracker runs pin the time unit dt = 1 while *tracking physical dimensions*: every executed operation is checked to be dimensionally consistent, which makes all observables homogeneous in (dt, t_start, T, intervals) and justifies the normalisation (obligation 'time-scale-homogeneity')",
    "tracker intervals dt/4 <= D <= 8*dt (constant), fixed lists inside [-dt, 8*dt], logarithmic factor in [1, 3]; |t_start| <= 8*dt; 'arbitrary' schedules: a non-deterministic interrupt stub whose answers are fresh symbols constrained only by the interrupt contract of C09 (>= query, later than the previous answer by >= dt/4) - this covers geometric and user-defined schedules as far as the controller is concerned",
    "time equalities are asserted up to 1e-9*dt*K (exact in real arithmetic); float round-off of t_start + n*dt is outside the claim",
]
STUBS = ["float() identity on symbolic reals in pde.solvers.*, pde.trackers.*, pde.backends.numba._solvers", "nb.typeof -> None (signatures are ignored with NUMBA_DISABLE_JIT=1)"]
OUTSIDE = ["more than K steps per run", "trackers that modify the state", "MPI runs", "adaptive stepping (C06/C08)", "float round-off in the rounding of segment lengths (real-arithmetic semantics; the tie cases x.5 are covered exactly)"]
BOUNDS = {"max_paths": 6000, "tmax": 900.0, "query_timeout_ms": 10000}
CASE_TIMEOUT = 3600
EXPLANATION = "all paths of the real Controller.run/TrackerCollection.handle/interrupt/fixed_stepper code up to K steps, for all dt, ranges, offsets and tracker intervals"


def bounds_text(tier):
    return "K (max steps per run) = 3..5 depending on the case; 0-2 trackers (3 in thorough); see per_case for the exact configuration list"


def _case(name, **cfg):
    return {"name": name, "scenario": "scenario_c07", "cfg": cfg}


def cases(tier, seed):
    q = tier == "quick"
    out = []
    c1 = [{"kind": "const", "min_ratio": 0.25}]
    c2 = [{"kind": "const", "min_ratio": 0.25}, {"kind": "const", "min_ratio": 0.25}]
    for backend in ("numpy", "numba"):
        for rng in ("whole", "any"):
            out.append(_case(f"{backend}:notracker:dt=sym:{rng}:K=4", backend=backend, K=4, range=rng, dt="sym", trackers=[], t_start="sym"))
            out.append(_case(f"{backend}:1const:dt=sym:{rng}:K={3 if q else 4}", backend=backend, K=3 if q else 4, range=rng, dt="sym", trackers=c1))
    for rng in ("whole", "any"):
        out.append(_case(f"numpy:1const:dt=1:{rng}:K=5:tstart", backend="numpy", K=5, range=rng, dt=1, a=0.5, trackers=c1, t_start="sym"))
        out.append(_case(f"numpy:2const:dt=1:{rng}:K={3 if q else 4}", backend="numpy", K=3 if q else 4, range=rng, dt=1, a=0.5, trackers=c2))
        out.append(_case(f"numpy:fixed2+const:dt=1:{rng}:K=3", backend="numpy", K=3, range=rng, dt=1, a=0.5, trackers=[{"kind": "fixed", "L": 2}, {"kind": "const", "min_ratio": 0.5}]))
        out.append(_case(f"numpy:log:dt=1:{rng}:K=4", backend="numpy", K=4, range=rng, dt=1, a=0.5, trackers=[{"kind": "log", "factor": "sym"}]))
        # a stateful post-step hook (scalar auxiliary data fed back into the state) across tracker interrupts
        for backend in ("numpy", "numba"):
            for solver in ("euler", "runge-kutta"):
                out.append(_case(f"{backend}:{solver}:post-step-hook:1const:dt=1:{rng}:K=4", backend=backend, solver=solver, K=4, range=rng, dt=1, a=0.5, hook=True, trackers=[{"kind": "const", "min_ratio": 0.5}]))
        out.append(_case(f"numpy:arbitrary-schedule:dt=1:{rng}:K=4", backend="numpy", K=4, range=rng, dt=1, a=0.5, trackers=[{"kind": "arbitrary"}]))
        out.append(_case(f"numba:arbitrary-schedule+const:dt=1:{rng}:K=2", backend="numba", K=2, range=rng, dt=1, a=0.5, trackers=[{"kind": "arbitrary", "min_gap": 0.5}, {"kind": "const", "min_ratio": 0.5}]))
        out.append(_case(f"numpy:rk:1const:dt=1:{rng}:K=3", backend="numpy", solver="runge-kutta", K=3, range=rng, dt=1, a=0.5, trackers=c1))
        out.append(_case(f"numpy:ab:1const:dt=1:{rng}:K=4", backend="numpy", solver="adams-bashforth", K=4, range=rng, dt=1, a=0.5, trackers=c1))
        out.append(_case(f"numba:ab:1const:dt=1:{rng}:K=3", backend="numba", solver="adams-bashforth", K=3, range=rng, dt=1, a=0.5, trackers=c1))
    if not q:
        out.append(_case("numba:2const:dt=1:whole:K=4", backend="numba", K=4, range="whole", dt=1, a=0.5, trackers=c2))
        out.append(dict(_case("numpy:3const:dt=1:whole:K=3", backend="numpy", K=3, range="whole", dt=1, a=0.5, trackers=c2 + [{"kind": "const", "min_ratio": 0.5}]), bounds={"tmax": 3000.0, "max_paths": 20000}))
        out.append(_case("numpy:1const:dt=0.1:any:K=5", backend="numpy", K=5, range="any", dt=0.1, a=0.5, trackers=c1))
    return out


def scenario_c07(env, cfg):
    r = H.run_controller(env, cfg)
    dt, ts, K = r["dt"], r["ts"], r["K"]
    steps = r["steps"]
    t_final, t_end = r["t_final"], r["t_end"]
    n = H.concrete_steps(env, r)
    env.observe("steps", n)
    env.observe("t_final", t_final)
    env.observe("state", r["final"].data)
    tscale = dt * K
    if cfg["range"] == "whole":
        env.prove("whole-range:steps=N", steps == r["N"])
        env.close("whole-range:t_final=t_end", t_final, t_end, scale=tscale)
    env.close("t_final=t_start+steps*dt", t_final, ts + steps * dt, scale=tscale)
    env.prove("|t_final-t_end|<dt", abs(t_final - t_end) < dt)
    env.close("state=steps-fold-one-step-map", r["final"].data[0], H.nfold(r, n))
    if r["hook"]:
        env.close("hook-data=number-of-steps", r["hook_data"], n, scale=8)
    env.same("initial-state-object-unmodified", r["init"].data, r["init_data_before"])
    env.prove("returned-state-is-not-the-initial-object", r["final"] is not r["init"])
    calls = r["calls"]
    if calls is not None:
        per_step = {"euler": 1, "runge-kutta": 4, "adams-bashforth": 2}[r["solver"]]
        extra = 1 if r["solver"] == "adams-bashforth" and n > 0 else 0  # bootstrap evaluation
        env.prove("rate-evaluations=steps*stages", len(calls) == n * per_step + extra)
        if per_step == 1:
            for i, tc in enumerate(calls):
                env.close(f"rate-evaluated-at-t_start+i*dt:{i}", tc, ts + i * dt, scale=tscale)
    env.homogeneous("time-scale-homogeneity")
    env.reach()


CANARIES = [
    {
        "name": "stepper-claims-to-reach-t_end",
        "case": "numpy:1const:dt=1:any:K=5:tstart",
        "patch": [("pde.solvers.base:SolverBase._make_inner_stepper", "return t + dt", "return t_end")],
        "expect": "t_final",
    },
    {
        "name": "step-counter-not-accumulated",
        "case": "numpy:2const:dt=1:whole:K=3",
        "patch": [("pde.solvers.base:SolverBase._make_inner_stepper", 'self.info["steps"] += steps', 'self.info["steps"] = steps')],
        "expect": "steps|t_final",
    },
    {
        "name": "numba-stepper-claims-to-reach-t_end",
        "case": "numba:1const:dt=sym:any:K=3",
        "patch": [("pde.backends.numba._solvers:_make_fixed_stepper", "return t_last", "return t_end")],
        "expect": "t_final|steps|state",
    },
    {
        "name": "controller-does-not-copy-initial-state",
        "case": "numpy:notracker:dt=sym:any:K=4",
        "patch": [("pde.solvers.controller:Controller.run", "state = initial_state.copy()", "state = initial_state")],
        "expect": "initial-state",
    },
]
