"""C16 — interpolation is exact where it must be; insertion conserves the amount."""

from __future__ import annotations

import importlib
import itertools

import numpy as np

from symx import ops as O
from symx.values import install_float_shadow

from . import _ops as X
from . import c02_boundaries as B
from . import c12_geometry as G

ID = "C16"
LEVEL = "model_checking"
FUNCTIONS = [
    "pde.backends.numba.grids:make_interpolation_axis_data",
    "pde.backends.numba.grids:make_single_interpolator",
    "pde.backends.numba.grids:make_cell_volume_getter",
    "pde.backends.numba.backend:NumbaBackend.make_interpolator",
    "pde.backends.numba.backend:NumbaBackend.make_inserter",
    "pde.fields.datafield_base:DataFieldBase.make_interpolator",
    "pde.fields.datafield_base:DataFieldBase.interpolate",
    "pde.fields.datafield_base:DataFieldBase.insert",
    "pde.fields.scalar:ScalarField.interpolate_to_grid",
]
ASSUMPTIONS = [
    "field data (valid and ghost) symbolic in [-4, 4]; the point symbolic within two domain sizes around the domain; concrete anisotropic dyadic geometry (plus symbolic radii for the insertion on spherical grids)",
    "membership: points less than 1e-9*dx inside/outside a face are excluded (ill-conditioned strip named in the property); the interpolator's own 1e-15 weight cut lies inside the 1e-9 tolerance of the value comparisons",
    "reference interpolant written in this file: per axis u = (x - lo)/dx - 1/2, linear between the two neighbouring centres, nearest value within half a cell of a non-periodic face, periodic wrap otherwise",
]
STUBS = B.STUBS + [
    "make_array_constructor(arr) (raw address -> nb.carray): closure over the array object alive at creation time",
    "float()/int() inside pde.backends.numba.grids and backend: identity / fork over the feasible integer values",
]
OUTSIDE = ["general-position interpolation on 3-axis grids: thorough tier explores two octants of a 2x2x2 grid up to a time cap (optional cases; centres, affine exactness and insertion on that grid are decided in both tiers)", "points within round-off of the domain boundary"]
CASE_TIMEOUT = 3600
BOUNDS = {"max_paths": 3000, "tmax": 600.0, "query_timeout_ms": 20000, "max_int_fork": 40}
EXPLANATION = "all index/weight branches of the real interpolation code for a symbolic point; per path the value is compared with the multilinear reference for all data"
SC = 4096

GR = {
    "cart1": {"kind": "cart", "shape": (3,)},
    "cart1:1cell": {"kind": "cart", "shape": (1,)},
    "cart1:periodic": {"kind": "cart", "shape": (3,), "periodic": (True,)},
    "cart2:periodic-y": {"kind": "cart", "shape": (2, 2), "periodic": (False, True)},
    "cart2": {"kind": "cart", "shape": (2, 3)},
    "cart3": {"kind": "cart", "shape": (2, 2, 2)},
    "polar:hole": {"kind": "polar", "shape": (3,), "hole": True},
    "sph:nohole": {"kind": "sph", "shape": (3,), "hole": False},
    "cyl:hole": {"kind": "cyl", "shape": (2, 2), "hole": True},
    "cyl:periodic_z": {"kind": "cyl", "shape": (2, 2), "hole": False, "periodic_z": True},
    # a periodic axis with a single cell: both support points of that axis wrap onto the same cell
    "cart1:1cell:periodic": {"kind": "cart", "shape": (1,), "periodic": (True,)},
    "cart2:1cell-periodic-y": {"kind": "cart", "shape": (2, 1), "periodic": (False, True)},
    "cyl:1cell-periodic_z": {"kind": "cyl", "shape": (2, 1), "hole": True, "periodic_z": True},
}


def bounds_text(tier):
    return "grids with 1-3 cells per axis, 1-3 axes, periodic and non-periodic, all grid classes; ranks 0 and 1"


_prep = {}


def _prepare(env):
    G._prepare(env)
    B._prepare(env.sym)
    utils = importlib.import_module("pde.backends.numba.utils")
    if env.sym and not _prep:
        _prep["ok"] = True

        def make_array_constructor(arr):
            def array_constructor():
                return arr

            return array_constructor

        utils.make_array_constructor = make_array_constructor
        for name in ("pde.backends.numba.grids", "pde.backends.numba.backend", "pde.fields.datafield_base", "pde.fields.scalar", "pde.fields.base"):
            m = importlib.import_module(name)
            if not isinstance(getattr(m, "np", None), X._NpProxy):
                m.np = X._NpProxy(np)
            install_float_shadow(m)


def _axis_ref(u, size, periodic, with_ghost):
    """reference support points and weights along one axis for cell coordinate u = (x-lo)/dx - 1/2
    returns list of (index, weight) or None when outside"""
    i = O.floor_(u)
    d = u - i
    return i, d


def _reference(env, grid, geom, data, p, with_ghost):
    """multilinear reference value at point p (valid data array `data` indexed [..., i, j])"""
    na = grid.num_axes
    per_axis = []
    for a in range(na):
        n = grid.shape[a]
        u = (p[a] - geom["x0"][a]) / geom["h"][a] - 0.5
        i = O.floor_(u)
        ii = int(i)  # forks over the feasible cells
        d = u - ii
        if grid.periodic[a]:
            per_axis.append([((ii % n), 1 - d), (((ii + 1) % n), d)])
        else:
            if env.is_true(O.land(u >= 0, u < n - 1)):
                per_axis.append([(ii, 1 - d), (ii + 1, d)])
            elif env.is_true(O.land(u >= n - 1, u <= n - 0.5)):
                per_axis.append([(n - 1, 1)])
            elif env.is_true(O.land(u >= -0.5, u <= 0)):
                per_axis.append([(0, 1)])
            else:
                return None
    val = 0
    support = []
    for combo in itertools.product(*per_axis):
        w = 1
        idx = []
        for i, wi in combo:
            w = w * wi
            idx.append(i)
        v = data[(..., *idx)]
        support.append(v)
        val = val + w * v
    return val, support


def _inside_guard(env, grid, geom, p, margin=1e-9):
    """the point is not within margin*dx of a non-periodic face (ill-conditioned membership)"""
    for a in range(grid.num_axes):
        if grid.periodic[a]:
            continue
        lo = geom["x0"][a]
        hi = lo + grid.shape[a] * geom["h"][a]
        m = margin * geom["h"][a]
        env.assume(O.lor(abs(p[a] - lo) > m, abs(p[a] - lo) <= 0))
        env.assume(O.lor(abs(p[a] - hi) > m, abs(p[a] - hi) <= 0))


def scenario_interpolate(env, cfg):
    import pde
    from pde.grids.base import DomainError

    _prepare(env)
    grid, geom = X.make_grid(env, dict(GR[cfg["grid"]], geometry="dyadic"))
    if grid.num_axes > 1:
        env.nonlinear("obligations")
    rank = cfg.get("rank", 0)
    dt = object if env.sym else float
    data = env.array("u", (grid.dim,) * rank + grid.shape, -4, 4)
    cls = {0: pde.ScalarField, 1: pde.VectorField}[rank]
    f = cls(grid, data, dtype=dt)
    p = G._point(env, "p", grid, geom, spread=cfg.get("spread", 1 if grid.num_axes == 1 else 0.5))
    _inside_guard(env, grid, geom, p)
    for a, side in enumerate(cfg.get("part", ())):
        # the case covers one half-space per axis (the parts overlap at the mid-plane); splits the work over processes
        mid = geom["x0"][a] + grid.shape[a] * geom["h"][a] / 2
        env.assume(p[a] <= mid if side == 0 else p[a] >= mid)
    fill = cfg.get("fill")
    ref = _reference(env, grid, geom, data, p, False)
    try:
        got = f.interpolate(np.array(p, copy=True), fill=fill)
        raised = False
    except DomainError:
        raised = True
    env.observe("raised", raised)
    if ref is None:
        if fill is None:
            env.prove("outside-point-raises-DomainError", raised)
        else:
            env.prove("outside-point-does-not-raise-with-fill", not raised)
            if not raised:
                env.close("outside-point-returns-fill", list(np.atleast_1d(got).flat), [fill] * int(np.size(got)), scale=SC)
    else:
        env.prove("inside-point-does-not-raise", not raised)
        if not raised:
            val, support = ref
            env.close("value=multilinear-interpolant", list(np.atleast_1d(got).flat), list(np.atleast_1d(val).flat), scale=SC)
            if rank == 0:
                lo_b = support[0]
                hi_b = support[0]
                for s in support[1:]:
                    lo_b = O.smin(lo_b, s)
                    hi_b = O.smax(hi_b, s)
                env.prove("value-within-range-of-support-data", O.land(got >= lo_b - 1e-9, got <= hi_b + 1e-9))
            env.observe("value", got)
    env.reach()


def scenario_centres_affine(env, cfg):
    """cell centres return the cell value; affine data is reproduced between the outermost centres"""
    import pde

    _prepare(env)
    grid, geom = X.make_grid(env, dict(GR[cfg["grid"]], geometry="dyadic"))
    if grid.num_axes > 1:
        env.nonlinear("obligations")
    dt = object if env.sym else float
    data = env.array("u", grid.shape, -4, 4)
    f = pde.ScalarField(grid, data, dtype=dt)
    for idx in np.ndindex(*grid.shape):
        c = np.array([grid.axes_coords[a][i] for a, i in enumerate(idx)], dtype=float)
        env.close(f"centre{idx}->cell-value", f.interpolate(c), data[idx], scale=SC)
    # affine data
    a0 = env.real("a0", -2, 2)
    g = [env.real(f"g{a}", -2, 2) for a in range(grid.num_axes)]
    aff = np.empty(grid.shape, dtype=dt)
    for idx in np.ndindex(*grid.shape):
        aff[idx] = a0 + O.total(g[a] * float(grid.axes_coords[a][i]) for a, i in enumerate(idx))
    fa = pde.ScalarField(grid, aff, dtype=dt)
    p = np.empty(grid.num_axes, dtype=dt)
    for a in range(grid.num_axes):
        lo, hi = float(grid.axes_coords[a][0]), float(grid.axes_coords[a][-1])
        t = env.real(f"t{a}", 0, 1)
        p[a] = lo + t * (hi - lo)
    env.close("affine-data-reproduced-exactly", fa.interpolate(np.array(p, copy=True)), a0 + O.total(g[a] * p[a] for a in range(grid.num_axes)), scale=SC)
    env.reach()


def scenario_periodic(env, cfg):
    """interpolation is periodic across periodic boundaries (with and without boundary conditions)"""
    import pde

    _prepare(env)
    grid, geom = X.make_grid(env, dict(GR[cfg["grid"]], geometry="dyadic"))
    dt = object if env.sym else float
    data = env.array("u", grid.shape, -4, 4)
    f = pde.ScalarField(grid, data, dtype=dt)
    p = G._point(env, "p", grid, geom, spread=0)
    _inside_guard(env, grid, geom, p)
    for a in range(grid.num_axes):
        if grid.periodic[a]:
            continue
        # stay inside along the non-periodic axes
        lo = geom["x0"][a]
        env.assume(O.land(p[a] >= lo, p[a] <= lo + grid.shape[a] * geom["h"][a]))
    from pde.grids.base import DomainError

    if grid.num_axes > 1:
        env.nonlinear("obligations")

    def interp(q, bc):
        try:
            return f.interpolate(q, bc=bc)
        except DomainError:
            return None

    for bc in (None, "auto_periodic_neumann"):
        base = interp(np.array(p, copy=True), bc)
        env.prove(f"inside-point-interpolates:bc={bc}", base is not None)
        for a in range(grid.num_axes):
            if not grid.periodic[a] or base is None:
                continue
            L = grid.shape[a] * geom["h"][a]
            for k in (-2, 1):
                q = np.array(p, copy=True)
                q[a] = p[a] + k * L
                got = interp(q, bc)
                env.prove(f"periodic-axis{a}:shift{k}:bc={bc}:no-DomainError", got is not None)
                if got is not None:
                    env.close(f"periodic-axis{a}:shift{k}:bc={bc}", got, base, scale=SC)
    env.reach()


def scenario_bc(env, cfg):
    """with boundary conditions the interpolant reaches the imposed boundary value at the wall, linearly"""
    import pde

    _prepare(env)
    grid, geom = X.make_grid(env, dict(GR[cfg["grid"]], geometry="dyadic"))
    dt = object if env.sym else float
    data = env.array("u", grid.shape, -4, 4)
    f = pde.ScalarField(grid, data, dtype=dt)
    v = 0.75
    if any(grid.periodic):
        bc = {grid.axes[b]: ("periodic" if grid.periodic[b] else {"value": v}) for b in range(grid.num_axes)}
    else:
        bc = {"*": {"value": v}}
    a = cfg.get("axis", 0)
    for upper in cfg.get("sides", (False, True)):
        wall = geom["x0"][a] + (grid.shape[a] * geom["h"][a] if upper else 0)
        inner = grid.axes_coords[a][-1 if upper else 0]
        s = env.real(f"s{int(upper)}", 0, 1)  # 0 = wall, 1 = first centre
        p = np.empty(grid.num_axes, dtype=dt)
        for b in range(grid.num_axes):
            p[b] = float(grid.axes_coords[b][0])
        p[a] = wall + s * (float(inner) - wall)
        got = f.interpolate(np.array(p, copy=True), bc=bc)
        idx = [0] * grid.num_axes
        idx[a] = grid.shape[a] - 1 if upper else 0
        cell = data[tuple(idx)]
        env.close(f"{'upper' if upper else 'lower'}-wall:linear-between-boundary-value-and-first-cell", got, v + s * (cell - v), scale=SC)
    env.reach()


def scenario_insert(env, cfg):
    """inserting an amount raises the integral by exactly that amount; compiled = interpreted inserter"""
    import pde
    from pde.backends import get_backend
    from pde.grids.base import DomainError

    _prepare(env)
    env.nonlinear(cfg.get("geometry") == "sym")
    grid, geom = X.make_grid(env, dict(GR[cfg["grid"]], geometry=cfg.get("geometry", "dyadic"), hmin=1 / 4, hmax=1, rin_lo=0.5))
    if grid.num_axes > 1:
        env.nonlinear("obligations")
    dt = object if env.sym else float
    rank = cfg.get("rank", 0)
    data = env.array("u", (grid.dim,) * rank + grid.shape, -4, 4)
    cls = {0: pde.ScalarField, 1: pde.VectorField}[rank]
    f = cls(grid, np.array(data, copy=True), dtype=dt)
    amount = env.real("amount", -4, 4)
    p = G._point(env, "p", grid, geom, spread=0)
    for a in range(grid.num_axes):
        lo = geom["x0"][a]
        hi = lo + grid.shape[a] * geom["h"][a]
        m = 1e-9 * geom["h"][a]
        env.assume(O.land(p[a] >= lo + m, p[a] <= hi - m))
    before = grid.integrate(np.array(f.data, copy=True))
    f.insert(np.array(p, copy=True), amount)
    after = grid.integrate(f.data)
    env.close("insert:integral-increases-by-the-amount", list(np.atleast_1d(after - before).flat), [amount] * (grid.dim**rank), scale=SC * 16)
    # compiled inserter
    ins = get_backend("numba").make_inserter(grid)
    d2 = np.array(data, copy=True)
    ins(d2, np.array(p, copy=True), amount)
    env.close("compiled-inserter:integral-increases-by-the-amount", list(np.atleast_1d(grid.integrate(d2) - before).flat), [amount] * (grid.dim**rank), scale=SC * 16)
    env.close("compiled-inserter=interpreted-inserter", list(d2.flat), list(f.data.flat), scale=SC * 16)
    env.observe("after", after)
    env.reach(hints=[{"dr": 0.5, "dz": 0.5, "rin": 1, "dx0": 0.5, "dx1": 0.5}])


def cases(tier, seed):
    q = tier == "quick"
    out = []
    for g in GR:
        if g == "cart3":
            continue
        two_axes = len(GR[g]["shape"]) > 1
        for fill in (None, 0.5):
            if q and two_axes and fill is not None and g != "cart2":
                continue
            cfg = {"grid": g, "fill": fill}
            if two_axes:
                periodic = any(GR[g].get("periodic", ())) or GR[g].get("periodic_z")
                cfg["spread"] = (0 if periodic else 0.25) if q else 1
            if two_axes:
                for part in ((0, 0), (0, 1), (1, 0), (1, 1)):
                    out.append({"name": f"interpolate:{g}:fill={fill}:part{part[0]}{part[1]}", "scenario": "scenario_interpolate", "cfg": dict(cfg, part=list(part))})
            else:
                out.append({"name": f"interpolate:{g}:fill={fill}", "scenario": "scenario_interpolate", "cfg": cfg})
        out.append({"name": f"centres-affine:{g}", "scenario": "scenario_centres_affine", "cfg": {"grid": g}})
        out.append({"name": f"insert:{g}", "scenario": "scenario_insert", "cfg": {"grid": g}})
    if not q:
        for part in ((0, 0, 0), (1, 1, 1)):
            # general-position interpolation on a 3-axis grid costs several seconds per path (8 support points, non-linear
            # obligations) and thousands of paths: explored as far as the time cap allows (optional: an incomplete
            # exploration is reported in the evidence, not as an error); centres, affine data and insertion on cart3 are decided
            out.append({"name": f"interpolate:cart3:fill=None:part{''.join(map(str, part))}", "scenario": "scenario_interpolate", "cfg": {"grid": "cart3", "fill": None, "spread": 0, "part": list(part)}, "optional": True, "bounds": {"max_paths": 6000, "tmax": 1200, "path_timeout": 300.0}})
    out.append({"name": "centres-affine:cart3", "scenario": "scenario_centres_affine", "cfg": {"grid": "cart3"}})
    out.append({"name": "insert:cart3", "scenario": "scenario_insert", "cfg": {"grid": "cart3"}})
    out.append({"name": "interpolate:cart2:rank1", "scenario": "scenario_interpolate", "cfg": {"grid": "cart2", "rank": 1, "fill": None}})
    out.append({"name": "insert:cyl:hole:rank1", "scenario": "scenario_insert", "cfg": {"grid": "cyl:hole", "rank": 1}})
    for g in ("sph:nohole", "polar:hole"):
        out.append({"name": f"insert:{g}:symbolic-geometry", "scenario": "scenario_insert", "cfg": {"grid": g, "geometry": "sym"}})
    for g in ("cart1:periodic", "cart2:periodic-y", "cyl:periodic_z"):
        out.append({"name": f"periodic:{g}", "scenario": "scenario_periodic", "cfg": {"grid": g}})
    for g, ax in (("cart1", 0), ("cart2", 0), ("cart2", 1), ("cyl:hole", 1), ("polar:hole", 0)):
        out.append({"name": f"bc-wall:{g}:axis{ax}", "scenario": "scenario_bc", "cfg": {"grid": g, "axis": ax}})
    # mixed periodicity: the wall of the non-periodic axis still carries the imposed condition
    out.append({"name": "bc-wall:cart2:periodic-y:axis0", "scenario": "scenario_bc", "cfg": {"grid": "cart2:periodic-y", "axis": 0}})
    out.append({"name": "bc-wall:cyl:periodic_z:axis0:outer", "scenario": "scenario_bc", "cfg": {"grid": "cyl:periodic_z", "axis": 0, "sides": [True]}})
    return out


CANARIES = [
    {
        "name": "compiled-inserter-wrong-cell-volume",
        "case": "insert:cyl:hole",
        "patch": [("pde.backends.numba.backend:NumbaBackend.make_inserter", "cell_vol = cell_volume(c_xhi, c_yli)", "cell_vol = cell_volume(c_xli, c_yli)")],
        "expect": "compiled-inserter",
    },
    {
        "name": "periodic-wrap-skipped-with-ghost-cells",
        "case": "periodic:cart1:periodic",
        "patch": [("pde.backends.numba.grids:make_interpolation_axis_data", "        if periodic:\n", "        if periodic and not with_ghost_cells:\n")],
        "expect": "periodic",
    },
    {
        "name": "interpolation-weights-swapped",
        "case": "interpolate:cart1:fill=None",
        "patch": [("pde.backends.numba.grids:make_interpolation_axis_data", "w_l, w_h = 1 - d_l, d_l", "w_l, w_h = d_l, 1 - d_l")],
        "expect": "multilinear",
    },
]
