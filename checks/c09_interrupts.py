"""C09 — interrupt schedules are strictly increasing and stay on their lattice.

The real ``initialize``/``next`` methods of the deterministic interrupt classes are executed
on symbolic schedule parameters and a symbolic non-decreasing query sequence.
"""

from __future__ import annotations

import math

import numpy as np

from symx import ops as O

ID = "C09"
LEVEL = "model_checking"
FUNCTIONS = [
    "pde.trackers.interrupts:ConstantInterrupts.initialize",
    "pde.trackers.interrupts:ConstantInterrupts.next",
    "pde.trackers.interrupts:FixedInterrupts.initialize",
    "pde.trackers.interrupts:FixedInterrupts.next",
    "pde.trackers.interrupts:LogarithmicInterrupts.__init__",
    "pde.trackers.interrupts:LogarithmicInterrupts.next",
    "pde.trackers.interrupts:GeometricInterrupts.next",
]
ASSUMPTIONS = [
    "times |t| <= 64, schedule increments 1/64 <= dt <= 64, factors 1 <= f <= 4 (logarithmic) / 1+1/16 <= f <= 4 (geometric); at most 64 periods skipped per query",
    "comparisons 'not earlier than' are asserted up to 1e-9 (absolute, inputs boxed) = the property's 'up to round-off'",
    "geometric: log/ceil/** are uninterpreted functions with instantiated monotonicity and log(b**e)=e*log(b) axioms (the mathematical contract of the three numpy calls)",
]
STUBS = ["float() inside pde.trackers.interrupts is the identity on symbolic reals", "np.log, ** with symbolic exponent: uninterpreted functions plus axioms (geometric only)"]
OUTSIDE = ["RealtimeInterrupts (not deterministic; excluded by the property)", "query sequences longer than the bound", "float round-off in ceil/log (real-arithmetic semantics)"]
BOUNDS = {"max_paths": 4000, "tmax": 400.0, "query_timeout_ms": 20000}
EXPLANATION = "per path of the real initialize/next code, z3 decides the ordering/lattice obligations for all parameters and query sequences within the bound"


def bounds_text(tier):
    m = 3 if tier == "quick" else 5
    return f"query sequences of length {m + 1} (initialize + {m} next calls); fixed lists of up to 4 entries; all branch combinations explored"


def cases(tier, seed):
    m = 3 if tier == "quick" else 5
    out = []
    for ts in (False, True):
        out.append({"name": f"constant:t_start={ts}:m={m}", "scenario": "scenario_constant", "cfg": {"m": m, "t_start": ts, "dt": "sym"}})
        for dt in (1, 0.1) if tier == "quick" else (1, 0.1, 3, 1 / 64):
            out.append({"name": f"constant:dt={dt}:t_start={ts}:m={m + 1}", "scenario": "scenario_constant", "cfg": {"m": m + 1, "t_start": ts, "dt": dt}})
    mf = 4 if tier == "quick" else 6
    for L in (1, 2, 3, 4):
        out.append({"name": f"fixed:L={L}:m={mf}", "scenario": "scenario_fixed", "cfg": {"m": mf, "L": L}})
    ml = 3 if tier == "quick" else 4
    for ts in (False, True):
        out.append({"name": f"logarithmic:t_start={ts}:m={ml}", "scenario": "scenario_logarithmic", "cfg": {"m": ml, "t_start": ts, "dt": "sym", "factor": "sym"}})
        for fac in (1, 2, 1.1) if tier == "quick" else (1, 2, 1.1, 1.5, 4):
            out.append({"name": f"logarithmic:dt0=1:factor={fac}:t_start={ts}:m={ml + 1}", "scenario": "scenario_logarithmic", "cfg": {"m": ml + 1, "t_start": ts, "dt": 1, "factor": fac}})
    mg = 2 if tier == "quick" else 3
    out.append({"name": f"geometric:m={mg}", "scenario": "scenario_geometric", "cfg": {"m": mg}})
    return out


def _module():
    import importlib

    ti = importlib.import_module("pde.trackers.interrupts")

    from symx.values import install_float_shadow

    install_float_shadow(ti)
    return ti


TOL = 1e-9


def _queries(env, m, lo=-64, hi=64):
    ts = [env.real("t0", lo, hi, dim=1)]
    for j in range(1, m + 1):
        t = env.real(f"t{j}", lo, hi, dim=1)
        env.assume(t >= ts[-1])
        ts.append(t)
    return ts


def _dt_value(env, cfg, name, lo, hi):
    """symbolic (dimension-tracked) or pinned time unit"""
    if cfg.get("dt") in (None, "sym"):
        return env.real(name, lo, hi, dim=1)
    return env.fixed(name, cfg["dt"], dim=1)


def scenario_constant(env, cfg):
    ti = _module()
    m = cfg["m"]
    dt = _dt_value(env, cfg, "dt", 1 / 64, 64)
    tstart = env.real("tstart", -64, 64, dim=1) if cfg["t_start"] else None
    ts = _queries(env, m)
    intr = ti.ConstantInterrupts(dt, t_start=tstart)
    a0 = intr.initialize(ts[0])
    if tstart is None:
        env.same("init=t0", a0, ts[0])
    else:
        env.same("init=max(t0,t_start)", a0, O.smax(ts[0], tstart))
    env.prove("answer>=query:0", a0 - ts[0] >= -TOL * dt)
    prev = a0
    for j in range(1, m + 1):
        # bound the number of skipped periods (keeps the integer arithmetic bounded)
        env.assume(ts[j] - prev <= 64 * dt)
        a = intr.next(ts[j])
        env.prove(f"answer>=query:{j}", a - ts[j] >= -TOL * dt)
        env.prove(f"strictly-later:{j}", a - prev >= dt * (1 - TOL))
        env.prove(f"gap-on-lattice:{j}", O.int_multiple(a - prev, dt))
        if not O.is_symbolic(dt) or dt.c is not None:
            env.prove(f"on-lattice:{j}", O.int_multiple(a - a0, dt))
        # informational: no scheduled time that is still ahead of the query is skipped
        env.prove(f"minimal:{j}", O.lor(a - dt < ts[j], a - prev <= dt * (1 + TOL)), info=True)
        env.observe(f"a{j}", a)
        prev = a
    env.homogeneous("time-scale-homogeneity")
    env.reach()


def scenario_fixed(env, cfg):
    ti = _module()
    m, L = cfg["m"], cfg["L"]
    xs = []
    for i in range(L):
        x = env.real(f"x{i}", -64, 64)
        if xs:
            env.assume(x > xs[-1])
        xs.append(x)
    ts = _queries(env, m)
    arr = np.empty(L, dtype=object if env.sym else float)
    arr[:] = xs
    intr = ti.FixedInterrupts(arr)
    last = -1  # index of the element returned last
    exhausted = False
    for j in range(0, m + 1):
        a = intr.initialize(ts[0]) if j == 0 else intr.next(ts[j])
        env.observe(f"a{j}", a)
        if O.is_inf(a):
            exhausted = True
            # legitimate only if no not-yet-passed element is >= t
            for i in range(last + 1, L):
                env.prove(f"inf-only-when-exhausted:{j}", xs[i] < ts[j])
            last = L
            continue
        env.prove(f"no-answer-after-exhaustion:{j}", not exhausted)
        idx = None
        for i in range(L):
            if (a is arr[i]) if env.sym else (a == arr[i]):
                idx = i
        env.prove(f"member-of-list:{j}", idx is not None)
        if idx is None:
            return
        env.prove(f"strictly-later:{j}", idx > last)
        env.prove(f"answer>=query:{j}", a >= ts[j] - TOL)
        for i in range(last + 1, idx):
            env.prove(f"first-not-passed:{j}", xs[i] < ts[j])
        last = idx
    env.reach()


def scenario_logarithmic(env, cfg):
    ti = _module()
    m = cfg["m"]
    dt0 = _dt_value(env, cfg, "dt0", 1 / 64, 16)
    f = env.real("factor", 1, 4, dim=0) if cfg.get("factor") in (None, "sym") else env.fixed("factor", cfg["factor"], dim=0)
    tstart = env.real("tstart", -64, 64, dim=1) if cfg["t_start"] else None
    ts = _queries(env, m)
    intr = ti.LogarithmicInterrupts(dt0, f, t_start=tstart)
    a0 = intr.initialize(ts[0])
    env.same("init", a0, ts[0] if tstart is None else O.smax(ts[0], tstart))
    prev = a0
    inc = dt0
    no_catchup = True
    for j in range(1, m + 1):
        env.assume(ts[j] - prev <= 16 * inc)
        a = intr.next(ts[j])
        env.close(f"increment=dt0*f^{j - 1}", intr.dt, inc, scale=64 * dt0)
        env.prove(f"answer>=query:{j}", a - ts[j] >= -TOL * dt0)
        env.prove(f"strictly-later:{j}", a - prev >= inc * (1 - TOL))
        env.prove(f"gap-multiple-of-increment:{j}", O.int_multiple(a - prev, inc))
        caught_up = env.is_true(ts[j] > prev + inc)
        if not caught_up and no_catchup:
            env.close(f"gap=dt0*f^{j - 1}-without-catch-up", a - prev, inc, scale=64 * dt0)
        no_catchup = no_catchup and not caught_up
        env.observe(f"a{j}", a)
        prev = a
        inc = inc * f
    env.homogeneous("time-scale-homogeneity")
    env.reach()


def _geometric_axioms(env):
    """instantiate the contract of log / ** on the UF applications created so far"""
    if not env.sym:
        return
    import z3

    from symx.values import _State

    p = _State.ctx
    seen_log, seen_pow = {}, {}

    def visit(t, seen):
        if t.get_id() in seen:
            return
        seen.add(t.get_id())
        if z3.is_app(t):
            nm = t.decl().name()
            if nm == "uf_log":
                seen_log[t.get_id()] = t
            elif nm == "uf_pow":
                seen_pow[t.get_id()] = t
            for c in t.children():
                visit(c, seen)

    seen: set = set()
    for t in list(p.assumptions) + list(p.pc) + list(env._extra_terms):
        visit(t, seen)
    R = z3.RealSort()
    log = z3.Function("uf_log", R, R)
    ax = []
    logs = dict(seen_log)
    for pw in seen_pow.values():
        b, e = pw.children()
        lp, lb = log(pw), log(b)
        logs[lp.get_id()] = lp
        logs[lb.get_id()] = lb
        ax.append(z3.Implies(b > 0, z3.And(pw > 0, lp == e * lb)))
    pws = list(seen_pow.values())
    for i in range(len(pws)):
        b1, e1 = pws[i].children()
        ax.append(z3.Implies(e1 == 0, pws[i] == 1))
        for k in range(i + 1, len(pws)):
            b2, e2 = pws[k].children()
            if b1.get_id() == b2.get_id():
                ax.append(z3.Implies(b1 > 1, z3.And((e1 < e2) == (pws[i] < pws[k]), (e1 == e2) == (pws[i] == pws[k]))))
    ll = list(logs.values())
    for i in range(len(ll)):
        x = ll[i].arg(0)
        ax.append(z3.Implies(x == 1, ll[i] == 0))
        ax.append(z3.Implies(x > 1, ll[i] > 0))
        for k in range(i + 1, len(ll)):
            y = ll[k].arg(0)
            ax.append(z3.Implies(z3.And(x > 0, y > 0), z3.And((x < y) == (ll[i] < ll[k]), (x == y) == (ll[i] == ll[k]))))
    for a in ax:
        p.add_assumption(a)


def scenario_geometric(env, cfg):
    ti = _module()
    m = cfg["m"]
    scale = env.real("scale", 1 / 16, 16)
    f = env.real("factor", 1 + 1 / 16, 4)
    ts = [env.real("t0", 1 / 64, 64)]
    for j in range(1, m + 1):
        t = env.real(f"t{j}", 1 / 64, 64)
        env.assume(t >= ts[-1])
        ts.append(t)
    intr = ti.GeometricInterrupts(scale, f)
    env._extra_terms = []
    prev = None
    prev_k = None
    for j in range(0, m + 1):
        a = intr.initialize(ts[0]) if j == 0 else intr.next(ts[j])
        # specification: smallest lattice member >= max(t, prev*sqrt(f)) resp. scale/sqrt(f)
        t_min = scale * f**-0.5 if prev is None else prev * f**0.5
        t_min = O.smax(ts[j], t_min)
        k = np.ceil(np.log(t_min / scale) / np.log(f))
        spec = scale * f**k
        env.close(f"answer=scale*factor^ceil(log):{j}", a, spec, scale=64)
        if env.sym:
            env._extra_terms.append(a.t)
            env._extra_terms.append((a / scale).log().t)
            env._extra_terms.append((ts[j] / scale).log().t)
            _geometric_axioms(env)
            env.prove(f"exponent-integer:{j}", O.is_int(k))
            env.prove(f"answer>=query:{j}", a >= ts[j] * (1 - TOL))
            if prev is not None:
                env.prove(f"strictly-later:{j}", a > prev)
                env.prove(f"exponent-increases:{j}", k >= prev_k + 1)
        else:
            kk = math.log(a / scale) / math.log(f)
            env.prove(f"exponent-integer:{j}", O.is_int(kk, 1e-6))
            env.prove(f"answer>=query:{j}", a >= ts[j] * (1 - 1e-9))
            if prev is not None:
                env.prove(f"strictly-later:{j}", a > prev)
                env.prove(f"exponent-increases:{j}", kk >= prev_k + 1 - 1e-6)
            k = kk
        prev, prev_k = a, k
    env.reach(hints=[{"scale": 1, "factor": 4}, {"scale": 1, "factor": 4, "t0": 1}])


CANARIES = [
    {
        "name": "constant-catch-up-leaves-lattice",
        "case": "constant:t_start=False:m=3",
        "patch": [("pde.trackers.interrupts:ConstantInterrupts.next", "self._t_next += self.dt * n", "self._t_next = t")],
        "expect": "on-lattice",
    },
    {
        "name": "fixed-skip-uses-<=",
        "case": "fixed:L=3:m=4",
        "patch": [("pde.trackers.interrupts:FixedInterrupts.next", "while t_next < t:", "while t_next <= t:")],
        "expect": "first-not-passed|inf-only",
    },
    {
        "name": "logarithmic-factor-applied-late",
        "case": "logarithmic:dt0=1:factor=2:t_start=False:m=4",
        "patch": [("pde.trackers.interrupts:LogarithmicInterrupts.next", "self.dt *= self.factor\n    return super().next(t)", "res = super().next(t)\n    self.dt *= self.factor\n    return res")],
        "expect": "increment|gap",
    },
]
