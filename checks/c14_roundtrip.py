"""C14 — saving and restoring grids and fields loses nothing."""

from __future__ import annotations

import copy
import itertools
import json
import pickle

import numpy as np

from symx import ops as O

from . import _ops as X
from . import c12_geometry as G

ID = "C14"
LEVEL = "model_checking"
FUNCTIONS = [
    "pde.grids.base:GridBase.from_state",
    "pde.grids.base:GridBase.copy",
    "pde.grids.base:GridBase.state_serialized",
    "pde.grids.cartesian:CartesianGrid.state",
    "pde.grids.cartesian:CartesianGrid.from_state",
    "pde.grids.cartesian:UnitGrid.state",
    "pde.grids.spherical:SphericalSymGridBase.state",
    "pde.grids.spherical:SphericalSymGridBase.from_state",
    "pde.grids.cylindrical:CylindricalSymGrid.state",
    "pde.grids.cylindrical:CylindricalSymGrid.from_state",
    "pde.fields.base:FieldBase.from_state",
    "pde.fields.base:FieldBase.unserialize_attributes",
    "pde.fields.datafield_base:DataFieldBase.from_state",
    "pde.fields.datafield_base:DataFieldBase.attributes",
    "pde.fields.collection:FieldCollection.from_state",
    "pde.fields.collection:FieldCollection.from_data",
    "pde.fields.collection:FieldCollection.attributes",
]
ASSUMPTIONS = [
    "symbolic legs (decided by the solver for all parameter values): grid.state -> from_state, copy(), copy.copy, copy.deepcopy with symbolic bounds/radii through the real constructors; from_state(attributes, data) with symbolic data; FieldCollection.from_data with distinct concrete tags (it allocates float members itself)",
    "legs that cross a C boundary (json, pickle, attributes_serialized) run on a concrete enumeration of parameters (every grid class x hole x periodic flags x negative bounds x radius given as int/float/tuple x dtypes x labels) and are reported as enumerated, not solver-decided",
]
STUBS = G.STUBS
OUTSIDE = ["file based storages (HDF5, movies)", "grids with more than 3 axes"]
BOUNDS = {"max_paths": 200, "tmax": 600.0, "query_timeout_ms": 20000}
EXPLANATION = "term-level comparison of every geometric attribute / data entry before and after the round trip"
SC = 4096


def bounds_text(tier):
    return "13 symbolic grid configurations; ~60 concrete grid parameter sets; fields of rank 0-2 and collections of all rank combinations up to 3 members"


def _same_grid(env, tag, g, g2):
    env.prove(f"{tag}:same-class", type(g) is type(g2))
    env.prove(f"{tag}:same-shape", tuple(g.shape) == tuple(g2.shape))
    env.prove(f"{tag}:same-periodic", list(g.periodic) == list(g2.periodic))
    env.prove(f"{tag}:same-axes", list(g.axes) == list(g2.axes) and g.dim == g2.dim and g.num_axes == g2.num_axes)
    a = [x for b in g.axes_bounds for x in b]
    b = [x for b in g2.axes_bounds for x in b]
    env.prove(f"{tag}:same-number-of-bounds", len(a) == len(b))
    if len(a) == len(b):
        env.close(f"{tag}:same-bounds-incl-inner-radius", b, a, scale=SC)
    va = np.broadcast_to(np.asarray(g.cell_volumes, dtype=object if env.sym else float), g.shape)
    vb = np.broadcast_to(np.asarray(g2.cell_volumes, dtype=object if env.sym else float), g2.shape) if tuple(g.shape) == tuple(g2.shape) else None
    if vb is not None:
        env.close(f"{tag}:same-cell-volumes", list(vb.flat), list(va.flat), scale=SC * 64)
    env.close(f"{tag}:same-discretization", list(g2.discretization), list(g.discretization), scale=SC)


def scenario_grid_symbolic(env, cfg):
    G._prepare(env)
    env.nonlinear()
    grid, geom = G._grid(env, cfg["grid"])
    cls = type(grid)
    _same_grid(env, "from_state(state)", grid, cls.from_state(grid.state))
    _same_grid(env, "copy()", grid, grid.copy())
    _same_grid(env, "copy.copy", grid, copy.copy(grid))
    _same_grid(env, "copy.deepcopy", grid, copy.deepcopy(grid))
    env.observe("bounds", [x for b in grid.axes_bounds for x in b])
    env.reach(hints=[{"dx0": 0.5, "dx1": 0.25, "dx2": 1, "dr": 0.5, "dz": 0.25, "rin": 1, "x0_0": 0, "x0_1": 0, "x0_2": 0, "z0": 0}])


def _concrete_grids():
    import pde

    out = []
    for shape, per in (((4,), (False,)), ((3,), (True,)), ((2, 3), (True, False)), ((2, 2, 3), (False, True, True))):
        out.append(("UnitGrid", lambda s=shape, p=per: pde.UnitGrid(list(s), periodic=list(p))))
        bounds = [[-1.5 - a, 0.25 + 2 * a] for a in range(len(shape))]
        out.append(("CartesianGrid:negative-bounds", lambda s=shape, p=per, b=bounds: pde.CartesianGrid(b, list(s), periodic=list(p))))
        out.append(("CartesianGrid:size-only", lambda s=shape, p=per: pde.CartesianGrid([[0, 2 + a] for a in range(len(s))], list(s), periodic=list(p))))
    for cls in ("PolarSymGrid", "SphericalSymGrid"):
        for radius in (3, 2.5, (1, 3), (0.5, 2.25), (0, 2), (1e-9, 1e-6)):
            out.append((f"{cls}:radius={radius}", lambda c=cls, r=radius: getattr(pde, c)(r, 4)))
    for radius in (3, 2.5, (1, 3), (0.5, 2.25), (0, 2)):
        for bz in ((0, 1), (-2.5, -0.5), (-1, 3)):
            for pz in (False, True):
                out.append((f"CylindricalSymGrid:radius={radius}:z={bz}:pz={pz}", lambda r=radius, b=bz, p=pz: pde.CylindricalSymGrid(r, b, (3, 2), periodic_z=p)))
    return out


def scenario_grid_concrete(env, cfg):
    """legs through json / pickle on a concrete parameter enumeration (enumerated, not solver-decided)"""
    import pde
    from pde.grids.base import GridBase

    n = 0
    for name, make in _concrete_grids():
        if cfg["part"] != hash_part(name, cfg["parts"]):
            continue
        g = make()
        n += 1
        for tag, g2 in (
            ("from_state(state)", type(g).from_state(g.state)),
            ("GridBase.from_state(state_serialized)", GridBase.from_state(g.state_serialized)),
            ("from_state(json-roundtrip)", GridBase.from_state(json.loads(json.dumps(json.loads(g.state_serialized))))),
            ("pickle", pickle.loads(pickle.dumps(g))),
            ("copy()", g.copy()),
            ("deepcopy", copy.deepcopy(g)),
        ):
            _same_grid(env, f"{name}:{tag}", g, g2)
            env.prove(f"{name}:{tag}:==", bool(g == g2) and not bool(g != g2))
    env.prove("enumeration-non-empty", n > 0)


def hash_part(name, parts):
    import zlib

    return zlib.crc32(name.encode()) % parts


def _field_classes():
    import pde

    return {0: pde.ScalarField, 1: pde.VectorField, 2: pde.Tensor2Field}


def scenario_fields_symbolic(env, cfg):
    """from_state(attributes, data) and copies with symbolic data"""
    import pde
    from pde.fields.base import FieldBase

    G._prepare(env)
    grid, geom = X.make_grid(env, dict(G.GRIDS[cfg["grid"]], geometry="dyadic"))
    dt = object if env.sym else float
    fields = []
    for rank, cls in _field_classes().items():
        data = env.array(f"d{rank}", (grid.dim,) * rank + grid.shape, -4, 4)
        f = cls(grid, data, label=f"field {rank}", dtype=dt)
        fields.append(f)
        f2 = cls.from_state(f.attributes, data=f.data)
        env.prove(f"rank{rank}:from_state:class-label-grid", type(f2) is cls and f2.label == f.label and f2.grid == f.grid)
        env.same(f"rank{rank}:from_state:data", list(f2.data.flat), list(f.data.flat))
        f3 = FieldBase.from_state(f.attributes, data=f.data)
        env.prove(f"rank{rank}:FieldBase.from_state:class", type(f3) is cls)
        env.same(f"rank{rank}:FieldBase.from_state:data", list(f3.data.flat), list(f.data.flat))
        f4 = f.copy()
        env.same(f"rank{rank}:copy:data", list(f4.data.flat), list(f.data.flat))
    col = pde.FieldCollection(fields, label="col", dtype=dt)
    c2 = pde.FieldCollection.from_state(col.attributes, data=col.data)
    env.prove("collection:from_state:labels", list(c2.labels) == list(col.labels) and c2.label == col.label)
    env.prove("collection:from_state:classes", [type(f) for f in c2] == [type(f) for f in col])
    env.same("collection:from_state:data", list(c2.data.flat), list(col.data.flat))
    env.reach()


def scenario_from_data(env, cfg):
    """FieldCollection.from_data reproduces every component of every member (layout: fields in order,
    components row-major over grid.dim)"""
    import pde

    G._prepare(env)
    grid, geom = X.make_grid(env, dict(G.GRIDS[cfg["grid"]], geometry="dyadic"))
    dim = grid.dim
    classes = [_field_classes()[r] for r in cfg["ranks"]]
    ncomp = sum(dim**r for r in cfg["ranks"])
    for with_ghost in (True, False):
        shape = grid._shape_full if with_ghost else grid.shape
        # distinct concrete tags (from_data allocates float members itself, so symbols cannot pass through it)
        flat = np.arange(ncomp * int(np.prod(shape)), dtype=float).reshape((ncomp,) + tuple(shape)) + 0.5
        col = pde.FieldCollection.from_data(classes, grid, np.array(flat, copy=True), with_ghost_cells=with_ghost)
        env.prove(f"ghost={with_ghost}:number-of-fields", len(col) == len(classes))
        start = 0
        for k, (f, r) in enumerate(zip(col, cfg["ranks"])):
            n = dim**r
            env.prove(f"ghost={with_ghost}:field{k}:class", type(f) is classes[k])
            want_shape = (dim,) * r + (tuple(grid._shape_full) if with_ghost else tuple(grid.shape))
            got = f._data_full if with_ghost else f.data
            env.prove(f"ghost={with_ghost}:field{k}:shape", tuple(got.shape) == want_shape)
            if tuple(got.shape) == want_shape:
                env.prove(f"ghost={with_ghost}:field{k}:components", bool(np.array_equal(got, flat[start : start + n].reshape(want_shape))))
            start += n
        env.prove(f"ghost={with_ghost}:all-data-consumed", start == ncomp)


def scenario_fields_concrete(env, cfg):
    """attributes_serialized / unserialize_attributes / pickle with all dtypes and labels (enumerated)"""
    import pde
    from pde.fields.base import FieldBase

    rng = np.random.default_rng(0)
    n = 0
    for gname, make in _concrete_grids():
        if hash_part(gname, 6) != cfg["part"]:
            continue
        grid = make()
        for dtype in (float, complex, np.float32, int, bool):
            members = []
            for rank, cls in _field_classes().items():
                raw = rng.uniform(-3, 3, size=(grid.dim,) * rank + grid.shape)
                data = (raw > 0) if dtype is bool else raw.astype(dtype) if dtype is not complex else raw + 1j * raw[::-1].reshape(raw.shape)
                f = cls(grid, data, label=f"λ {rank}" if rank else None, dtype=dtype)
                members.append(f)
            col = pde.FieldCollection(members, label="c", labels=["a", None, "b"], dtype=dtype)
            for f in members + [col]:
                n += 1
                tag = f"{gname}:{np.dtype(dtype).name}:{type(f).__name__}"
                attrs = FieldBase.unserialize_attributes(f.attributes_serialized)
                f2 = FieldBase.from_state(attrs, data=f.data)
                ok = type(f2) is type(f) and f2.grid == f.grid and f2.label == f.label and f2.dtype == f.dtype and np.array_equal(f2.data, f.data)
                if isinstance(f, pde.FieldCollection):
                    ok = ok and list(f2.labels) == list(f.labels) and [type(x) for x in f2] == [type(x) for x in f]
                env.prove(f"{tag}:serialized-attributes-roundtrip", bool(ok))
                f3 = pickle.loads(pickle.dumps(f))
                env.prove(f"{tag}:pickle", type(f3) is type(f) and f3.grid == f.grid and f3.dtype == f.dtype and np.array_equal(f3.data, f.data) and f3.label == f.label)
                f4 = f.copy()
                # (FieldCollection.copy() does not keep a non-default dtype; the property only speaks of the
                # reconstruction from attributes for fields, so copies are compared by value, grid and class)
                env.prove(f"{tag}:copy", type(f4) is type(f) and np.array_equal(f4.data, f.data) and f4.grid == f.grid)
    env.prove("enumeration-non-empty", n > 0)


def cases(tier, seed):
    out = []
    for g in G.GRIDS:
        out.append({"name": f"grid-symbolic:{g}", "scenario": "scenario_grid_symbolic", "cfg": {"grid": g}})
    for part in range(4):
        out.append({"name": f"grid-concrete:part{part}", "scenario": "scenario_grid_concrete", "cfg": {"part": part, "parts": 4}, "validate_paths": 0})
    for g in ("cart2:periodic-x", "polar:hole", "sph:nohole", "cyl:hole"):
        out.append({"name": f"fields-symbolic:{g}", "scenario": "scenario_fields_symbolic", "cfg": {"grid": g}})
    rank_sets = [(0,), (1,), (2,), (0, 1), (1, 0), (0, 1, 2), (2, 1, 0), (1, 1)]
    for g in ("cart1", "cart2:periodic-x", "cart3:periodic-z", "polar:hole", "sph:nohole", "cyl:hole"):
        for rs in rank_sets if tier != "quick" else rank_sets[:6]:
            out.append({"name": f"from_data:{g}:ranks={''.join(map(str, rs))}", "scenario": "scenario_from_data", "cfg": {"grid": g, "ranks": list(rs)}})
    for part in range(6):
        out.append({"name": f"fields-concrete:part{part}", "scenario": "scenario_fields_concrete", "cfg": {"part": part}, "validate_paths": 0})
    return out


CANARIES = [
    {
        "name": "polar-state-drops-small-inner-radius",
        "case": "grid-symbolic:polar:hole",
        "patch": [("pde.grids.spherical:SphericalSymGridBase.radius", "if r_inner == 0:", "if r_inner <= 0.3:")],
        "expect": "bounds",
    },
    {
        "name": "collection-attributes-drop-dtype",
        "case": "fields-concrete:part0",
        "patch": [("pde.fields.collection:FieldCollection.attributes_serialized", "results[key] = json.dumps(value.str)", "results[key] = json.dumps('<f8')")],
        "expect": "roundtrip",
    },
]
