"""C17 — splitting a grid into sub-grids changes nothing."""

from __future__ import annotations

import importlib
import itertools

import numpy as np

from symx import ops as O
from symx.values import install_float_shadow

from . import _ops as X
from . import c02_boundaries as B
from . import c12_geometry as G

ID = "C17"
LEVEL = "model_checking"
FUNCTIONS = [
    "pde.grids._mesh:_subdivide",
    "pde.grids._mesh:_subdivide_along_axis",
    "pde.grids._mesh:GridMesh.from_grid",
    "pde.grids._mesh:GridMesh._get_data_indices_1d",
    "pde.grids._mesh:GridMesh._get_data_indices",
    "pde.grids._mesh:GridMesh.get_neighbor",
    "pde.grids._mesh:GridMesh.extract_field_data",
    "pde.grids._mesh:GridMesh.extract_subfield",
    "pde.grids._mesh:GridMesh.combine_field_data",
    "pde.grids._mesh:GridMesh.extract_boundary_conditions",
    "pde.grids._mesh:MPIFlags.boundary_lower",
    "pde.grids._mesh:MPIFlags.boundary_upper",
    "pde.grids.boundaries.local:_MPIBC.__init__",
    "pde.grids.boundaries.local:_MPIBC.send_ghost_cells",
    "pde.grids.boundaries.local:_MPIBC.set_ghost_cells",
    "pde.grids.boundaries.local:_PeriodicBC.to_subgrid",
    "pde.grids.boundaries.local:ConstBCBase.to_subgrid",
    "pde.grids.boundaries.axis:BoundaryPair.set_ghost_cells",
    "pde.grids.base:GridBase.from_bounds",
]
ASSUMPTIONS = [
    "every decomposition 1 <= chunks_a <= shape_a of the listed grids is enumerated (uneven and single-cell chunks included); geometry symbolic for the tiling obligations, field data (ghost cells included) symbolic for the data obligations",
    "MPI transport is replaced by an in-process mailbox keyed by (sender, receiver, tag): mpi_send stores a copy, mpi_recv requires the exact key; the node rank is switched by assigning pde.tools.mpi.rank (serial emulation of the data movement _MPIBC performs, axis by axis as BoundaryPair.set_ghost_cells does)",
    "_subdivide's float expression np.linspace(0, num, chunks+1).astype(int) is compared with its integer specification floor(k*num/chunks) exhaustively for num <= 48",
]
STUBS = B.STUBS + ["pde.tools.mpi.mpi_send / mpi_recv: in-process mailbox", "np.linspace inside pde.grids._mesh on symbolic bounds: start + (stop-start)*i/n"]
OUTSIDE = ["real MPI transport and process scheduling (not installed)", "grids larger than the enumerated shapes"]
BOUNDS = {"max_paths": 50, "tmax": 600.0, "query_timeout_ms": 20000}
EXPLANATION = "per decomposition: symbolic tiling identities, syntactic split/combine identity, and operator-on-subgrids == operator-on-whole-grid for all field contents"
SC = 4096

GRIDS = {
    "cart1": {"kind": "cart", "shape": (5,)},
    "cart1:periodic": {"kind": "cart", "shape": (4,), "periodic": (True,)},
    "cart2": {"kind": "cart", "shape": (3, 2)},
    "cart2:periodic-x": {"kind": "cart", "shape": (3, 2), "periodic": (True, False)},
    "cart2:periodic-y": {"kind": "cart", "shape": (2, 3), "periodic": (False, True)},
    "cart3": {"kind": "cart", "shape": (2, 2, 2), "periodic": (False, True, False)},
    "unit2": {"kind": "unit", "shape": (4, 2)},
    "cyl:hole": {"kind": "cyl", "shape": (3, 2), "hole": True},
    "cyl:periodic_z": {"kind": "cyl", "shape": (2, 3), "hole": False, "periodic_z": True},
    "sph:hole": {"kind": "sph", "shape": (4,), "hole": True},
    "polar:nohole": {"kind": "polar", "shape": (3,), "hole": False},
}


def bounds_text(tier):
    return "11 grids with up to 5 cells per axis, all decompositions (1..shape chunks per axis)"


_prep = {}


class Mailbox:
    def __init__(self):
        self.box = {}
        self.rank = 0


MAIL = Mailbox()


def _prepare(env):
    G._prepare(env)
    B._prepare(env.sym)
    mpi = importlib.import_module("pde.tools.mpi")
    if "mpi" not in _prep:
        _prep["mpi"] = True

        def mpi_send(data, dest, tag):
            MAIL.box[(mpi.rank, dest, int(tag))] = np.array(data, copy=True)

        def mpi_recv(data, source, tag):
            data[...] = MAIL.box[(source, mpi.rank, int(tag))]

        mpi.mpi_send = mpi_send
        mpi.mpi_recv = mpi_recv
    if env.sym and "sym" not in _prep:
        _prep["sym"] = True
        mesh = importlib.import_module("pde.grids._mesh")

        class MeshNp(X._NpProxy):
            def linspace(self, start, stop, num=50, *a, **k):
                if self._has_sym(start) or self._has_sym(stop):
                    out = np.empty(num, dtype=object)
                    for i in range(num):
                        out[i] = start + (stop - start) * X.F(i, num - 1)
                    return out
                return self._np.linspace(start, stop, num, *a, **k)

        mesh.np = MeshNp(np)
        install_float_shadow(mesh)
    return mpi


def _decompositions(shape):
    return list(itertools.product(*[range(1, n + 1) for n in shape]))


def scenario_tiling(env, cfg):
    """sub-grids tile the base grid exactly: bounds, shapes, volumes, cell coordinates (symbolic geometry)"""
    from pde.grids._mesh import GridMesh

    _prepare(env)
    env.nonlinear()
    grid, geom = X.make_grid(env, dict(GRIDS[cfg["grid"]], geometry="sym" if GRIDS[cfg["grid"]]["kind"] != "unit" else "dyadic", hmin=1 / 16, hmax=2, rin_lo=0.25))
    dec = cfg["dec"]
    mesh = GridMesh.from_grid(grid, list(dec))
    env.prove("mesh-shape", tuple(mesh.shape) == tuple(dec))
    na = grid.num_axes
    for a in range(na):
        idx = [0] * na
        coords, total = [], 0
        prev_hi = None
        for k in range(dec[a]):
            idx[a] = k
            sg = mesh.subgrids[tuple(idx)]
            lo, hi = sg.axes_bounds[a]
            if prev_hi is None:
                env.close(f"axis{a}:first-chunk-starts-at-lower-bound", lo, grid.axes_bounds[a][0], scale=SC)
            else:
                env.close(f"axis{a}:chunks-adjoin", lo, prev_hi, scale=SC)
            prev_hi = hi
            total += sg.shape[a]
            coords += list(sg.axes_coords[a])
            env.close(f"axis{a}:same-spacing", sg.discretization[a], grid.discretization[a], scale=SC)
            env.prove(f"axis{a}:chunk-not-empty", sg.shape[a] >= 1)
            for b in range(na):
                if b != a:
                    env.prove(f"axis{a}:other-axes-untouched", sg.shape[b] == mesh.subgrids[tuple([0] * na)].shape[b])
        env.close(f"axis{a}:last-chunk-ends-at-upper-bound", prev_hi, grid.axes_bounds[a][1], scale=SC)
        env.prove(f"axis{a}:shapes-sum", total == grid.shape[a])
        if total == grid.shape[a]:
            env.close(f"axis{a}:cell-coordinates-concatenate", coords, list(grid.axes_coords[a]), scale=SC)
    vol = 0
    for sg in mesh.subgrids.flat:
        vol = vol + sg.volume
    env.close("volumes-sum", vol, grid.volume, scale=SC * 64)
    # cell volumes of the sub-grids are the corresponding blocks of the base grid's cell volumes
    base_vol = np.broadcast_to(np.asarray(grid.cell_volumes, dtype=object if env.sym else float), grid.shape)
    parts = [np.broadcast_to(np.asarray(sg.cell_volumes, dtype=object if env.sym else float), sg.shape) for sg in mesh.subgrids.flat]
    comb = mesh.combine_field_data(parts)
    env.close("cell-volumes-combine", list(np.asarray(comb).flat), list(base_vol.flat), scale=SC * 64)
    env.reach(hints=[{"dx0": 0.5, "dx1": 0.25, "dx2": 1, "dr": 0.5, "dz": 0.25, "rin": 1, "x0_0": 0, "x0_1": 0, "x0_2": 0, "z0": 0}])


def scenario_data(env, cfg):
    """split/combine identity, neighbour relations, operators on sub-grids == operator on the whole grid"""
    import pde
    from pde.grids._mesh import GridMesh
    from pde.grids.boundaries.local import _MPIBC

    mpi = _prepare(env)
    gspec = dict(GRIDS[cfg["grid"]], geometry="dyadic")
    grid, geom = X.make_grid(env, gspec)
    dec = cfg["dec"]
    mesh = GridMesh.from_grid(grid, list(dec))
    na = grid.num_axes
    dt = object if env.sym else float
    n_nodes = len(mesh)
    # --- neighbour relations
    for k in range(n_nodes):
        for a in range(na):
            for upper in (False, True):
                nb = mesh.get_neighbor(a, upper, node_id=k)
                if nb is None:
                    idx = mesh._id2idx(k)
                    at_edge = idx[a] == (dec[a] - 1 if upper else 0)
                    env.prove("no-neighbour-only-at-non-periodic-edges-or-unsplit-axes", dec[a] == 1 or (at_edge and not grid.periodic[a]))
                else:
                    back = mesh.get_neighbor(a, not upper, node_id=nb)
                    env.prove("neighbour-relation-symmetric", back == k)
                    ia, ib = mesh._id2idx(k), mesh._id2idx(nb)
                    step = (ib[a] - ia[a]) % dec[a]
                    env.prove("neighbour-is-adjacent-chunk-(periodic-wrap)", step == (1 if upper else dec[a] - 1) % dec[a] and all(ia[b] == ib[b] for b in range(na) if b != a))
    # --- split / combine
    for rank in (0, 1):
        full = env.array(f"d{rank}", (grid.dim,) * rank + grid._shape_full, -4, 4)
        valid = full[(...,) + tuple(grid._idx_valid)]
        for with_ghost, arr in ((False, valid), (True, full)):
            parts = [mesh.extract_field_data(arr, node_id=k, with_ghost_cells=with_ghost) for k in range(n_nodes)]
            for k, p_ in enumerate(parts):
                sg = mesh[k]
                want = (grid.dim,) * rank + (tuple(sg._shape_full) if with_ghost else tuple(sg.shape))
                env.prove(f"rank{rank}:ghost={with_ghost}:extracted-shape", tuple(p_.shape) == want)
            if not with_ghost:
                back = mesh.combine_field_data(parts, with_ghost_cells=False)
                env.same(f"rank{rank}:combine(extract(x))=x", list(back.flat), list(arr.flat))
    # --- operator equivalence with the serial emulation of the ghost-cell exchange
    op = cfg.get("op", "laplace")
    rank_in, rank_out = X.RANKS[op]
    from .c03_routes import _bc_spec

    types = B.CONST_TYPES[:3]  # (curvature needs two cells per sub-grid: single-cell chunks reject it by design)
    spec = _bc_spec(grid, rank_in, types, cfg.get("rot", 0), False, grid.dim)
    if cfg.get("anti"):
        for a in range(na):
            if grid.periodic[a]:
                spec[grid.axes[a]] = "anti-periodic"
    x = env.array("u", (grid.dim,) * rank_in + grid.shape, -4, 4)
    if grid.__class__.__name__ == "SphericalSymGrid" and rank_in == 1:
        x[1:] = 0
    cls = {0: pde.ScalarField, 1: pde.VectorField}[rank_in]
    f = cls(grid, np.array(x, copy=True), dtype=dt)
    whole = np.array(f.apply_operator(op, bc=spec, backend="numba").data, copy=True)
    bcs_base = grid.get_boundary_conditions(spec, rank=rank_in)
    MAIL.box.clear()
    sub_full, sub_bcs = [], []
    saved_rank = mpi.rank
    try:
        for k in range(n_nodes):
            mpi.rank = k
            sg = mesh[k]
            arr = X._NpProxy(np).empty((grid.dim,) * rank_in + tuple(sg._shape_full), dtype=dt) if env.sym else np.full((grid.dim,) * rank_in + tuple(sg._shape_full), np.nan)
            arr[(...,) + tuple(sg._idx_valid)] = mesh.extract_field_data(np.array(x, copy=True), node_id=k)
            sub_full.append(arr)
            sub_bcs.append(mesh.extract_boundary_conditions(bcs_base))
        for a in range(na):
            for k in range(n_nodes):
                mpi.rank = k
                for bc in (sub_bcs[k][a].low, sub_bcs[k][a].high):
                    if isinstance(bc, _MPIBC):
                        bc.send_ghost_cells(sub_full[k])
            for k in range(n_nodes):
                mpi.rank = k
                sub_bcs[k][a].set_ghost_cells(sub_full[k])
        results = []
        for k in range(n_nodes):
            mpi.rank = k
            sg = mesh[k]
            raw = sg.make_operator_no_bc(op, backend="numba")
            out = np.empty((grid.dim,) * rank_out + tuple(sg.shape), dtype=dt)
            raw(sub_full[k], out)
            results.append(out)
    finally:
        mpi.rank = saved_rank
    combined = mesh.combine_field_data(results)
    env.close(f"{op}:combined-subgrid-results=whole-grid-result", list(np.asarray(combined).flat), list(whole.flat), scale=SC)
    env.observe("whole", whole)
    env.reach()


def scenario_subfields(env, cfg):
    """field-level API: extract_subfield of fields and collections (all ranks), with and without ghost cells"""
    import pde
    from pde.grids._mesh import GridMesh

    _prepare(env)
    grid, geom = X.make_grid(env, dict(GRIDS[cfg["grid"]], geometry="dyadic"))
    dec = cfg["dec"]
    mesh = GridMesh.from_grid(grid, list(dec))
    concrete = cfg.get("dtype")
    if concrete:
        dt = np.dtype(concrete)
        rng = np.random.default_rng(3)

        def arr(name, shape):
            a = rng.uniform(-1, 1, shape)
            if dt.kind == "c":
                a = a + 1j * rng.uniform(-1, 1, shape)
            return a.astype(dt)

    else:
        dt = object if env.sym else float

        def arr(name, shape):
            return env.array(name, shape, -4, 4)

    sfull = arr("s", grid._shape_full)
    vfull = arr("v", (grid.dim,) + grid._shape_full)
    s = pde.ScalarField(grid, np.array(sfull, copy=True), label="s", dtype=dt, with_ghost_cells=True)
    v = pde.VectorField(grid, np.array(vfull, copy=True), label="v", dtype=dt, with_ghost_cells=True)
    col = pde.FieldCollection([s.copy(), v.copy()], label="both")
    fields = {"scalar": s, "vector": v, "collection": col}
    for fname, f in fields.items():
        for ghost in (False, True):
            src = f._data_full if ghost else f.data
            parts = []
            for k in range(len(mesh)):
                sub = mesh.extract_subfield(f, node_id=k, with_ghost_cells=ghost)
                want = mesh.extract_field_data(np.array(src, copy=True), node_id=k, with_ghost_cells=ghost)
                got = sub._data_full if ghost else sub.data
                tag = f"{fname}:ghost={ghost}:node{k}"
                env.prove(f"{tag}:class-grid-label", sub.__class__ is f.__class__ and sub.grid == mesh[k] and sub.label == f.label and (not isinstance(f, pde.FieldCollection) or list(sub.labels) == list(f.labels)))
                env.prove(f"{tag}:dtype", sub.dtype == f.dtype)
                env.prove(f"{tag}:shape", tuple(np.shape(got)) == tuple(np.shape(want)))
                if concrete:
                    env.prove(f"{tag}:data=extracted-data", bool(np.array_equal(np.asarray(got), np.asarray(want))))
                else:
                    env.same(f"{tag}:data=extracted-data", list(np.asarray(got, dtype=dt).flat), list(np.asarray(want, dtype=dt).flat))
                parts.append(np.array(sub.data, copy=True))
            if not ghost:
                back = mesh.combine_field_data(parts)
                if concrete:
                    env.prove(f"{fname}:combine(subfields)=field", bool(np.array_equal(np.asarray(back), np.asarray(f.data))))
                else:
                    env.same(f"{fname}:combine(subfields)=field", list(np.asarray(back, dtype=dt).flat), list(np.asarray(f.data, dtype=dt).flat))
    if not concrete:
        env.reach()


def scenario_subdivide(env, cfg):
    """_subdivide: float expression vs integer specification (exhaustive for num <= 48)"""
    from pde.grids._mesh import _subdivide

    ok = True
    balanced = True
    bad = None
    for num in range(1, 49):
        for chunks in range(1, num + 1):
            got = list(_subdivide(num, chunks))
            want = [(k + 1) * num // chunks - k * num // chunks for k in range(chunks)]
            # (the float expression may round differently from floor(k*num/chunks); what tiling needs is
            # that the chunk sizes are positive and add up; they are also balanced)
            if sum(got) != num or min(got) < 1 or len(got) != chunks:
                ok = False
                bad = (num, chunks, got, want)
            if max(got) - min(got) > 1:
                balanced = False
    env.prove("subdivide:chunk-sizes-positive-and-sum-to-num", ok)
    env.prove("subdivide:chunks-balanced", balanced, info=True)
    if bad:
        env.note("bad", str(bad))
    raised = False
    try:
        _subdivide(3, 4)
    except RuntimeError:
        raised = True
    env.prove("more-chunks-than-cells-rejected", raised)


NotImplementedError = NotImplementedError  # CylindricalSymGrid.from_bounds rejects sub-grids with an inner radius: inadmissible decomposition, reported as an error


def cases(tier, seed):
    q = tier == "quick"
    out = [{"name": "subdivide", "scenario": "scenario_subdivide", "cfg": {}, "validate_paths": 0}]
    for g, spec in GRIDS.items():
        decs = _decompositions(spec["shape"])
        for dec in decs:
            dname = "x".join(map(str, dec))
            if not (q and len(decs) > 6 and sum(dec) % 2 == 1 and g not in ("cart1", "cart2")):
                out.append({"name": f"tiling:{g}:{dname}", "scenario": "scenario_tiling", "cfg": {"grid": g, "dec": list(dec)}})
            periodic_grid = any(spec.get("periodic", ())) or bool(spec.get("periodic_z"))
            ops = ["laplace"] if q else ["laplace", "gradient", "divergence"]
            for op in ops + (["divergence"] if q and periodic_grid else []):
                for rot in ((0, 2) if op == "laplace" else (1,)) if q else range(4):
                    out.append({"name": f"data:{g}:{dname}:{op}:rot{rot}", "scenario": "scenario_data", "cfg": {"grid": g, "dec": list(dec), "op": op, "rot": rot}})
            if any(spec.get("periodic", ())) or spec.get("periodic_z"):
                per = list(spec.get("periodic", ())) or [False, bool(spec.get("periodic_z"))]
                split = any(p_ and k > 1 for p_, k in zip(per, dec))
                out.append({"name": f"data:{g}:{dname}:laplace:anti-periodic:{'seam-split' if split else 'seam-unsplit'}", "scenario": "scenario_data", "cfg": {"grid": g, "dec": list(dec), "op": "laplace", "rot": 1, "anti": True}})
    # field-level splitting (fields of all ranks and collections): symbolic contents, and concrete legs for the dtypes
    for g, dec in (("cart1", (2,)), ("cart2", (2, 1)), ("cart2:periodic-x", (1, 2)), ("polar:nohole", (2,))) if q else (("cart1", (2,)), ("cart1", (3,)), ("cart2", (2, 1)), ("cart2", (2, 2)), ("cart2:periodic-x", (1, 2)), ("polar:nohole", (2,)), ("sph:hole", (3,)), ("cyl:periodic_z", (1, 2))):
        if g not in GRIDS:
            continue
        dname = "x".join(map(str, dec))
        out.append({"name": f"subfields:{g}:{dname}", "scenario": "scenario_subfields", "cfg": {"grid": g, "dec": list(dec)}})
        for dtype in ("complex128", "float32"):
            out.append({"name": f"subfields:{g}:{dname}:dtype={dtype}", "scenario": "scenario_subfields", "cfg": {"grid": g, "dec": list(dec), "dtype": dtype}, "validate_paths": 0})
    for c in out:
        if ":cyl:" in c["name"]:
            c["allowed"] = ["NotImplementedError"]
    return out


CANARIES = [
    {
        "name": "subgrid-bounds-assume-equal-chunks",
        "case": "tiling:cart1:2",
        "patch": [("pde.grids._mesh:_subdivide_along_axis", "cell_bounds = np.linspace(*axis_bounds, grid.shape[axis] + 1)\n        bounds = replace_in_axis(\n            grid.axes_bounds, (cell_bounds[start], cell_bounds[end])\n        )", "cell_bounds = np.linspace(*axis_bounds, chunks + 1)\n        bounds = replace_in_axis(\n            grid.axes_bounds, (cell_bounds[len(subgrids)], cell_bounds[len(subgrids) + 1])\n        )")],
        "expect": "adjoin|spacing|coordinates|volumes",
    },
    {
        "name": "anti-periodic-flip-lost-on-subgrids",
        "case": "data:cart2:periodic-y:2x1:laplace:anti-periodic:seam-unsplit",
        "patch": [("pde.grids.boundaries.local:_PeriodicBC.to_subgrid", "flip_sign=self.flip_sign,", "")],
        "expect": "combined",
    },
    {
        "name": "periodic-neighbour-wrap-wrong",
        "case": "data:cart1:periodic:3:laplace:rot0",
        "patch": [("pde.grids._mesh:GridMesh.get_neighbor", "idx[axis] = 0  # last upper cell, but periodic conditions", "idx[axis] = 1  # last upper cell, but periodic conditions")],
        "expect": "neighbour|combined",
    },
]
