"""C03 — every route to the same operator-with-BC result agrees.

For one grid, operator and boundary condition the result *term* (a function of the symbolic
field contents) is computed along every public route and the routes are compared pairwise by
the solver.  Thread schedules of the parallel kernels are covered by a sufficient
race-freedom condition decided with symbolic loop extents on the AST of every ``nb.prange``
loop found in the operator modules.
"""

from __future__ import annotations

import ast
import importlib
import inspect
import itertools

import numpy as np

from symx import ops as O

from . import _ops as X
from . import c02_boundaries as B

ID = "C03"
LEVEL = "model_checking"
FUNCTIONS = [
    "pde.fields.datafield_base:DataFieldBase.apply_operator",
    "pde.grids.base:GridBase.make_operator",
    "pde.grids.base:GridBase.make_operator_no_bc",
    "pde.backends.numba.backend:NumbaBackend.make_operator",
    "pde.backends.numba.backend:NumbaBackend.make_ghost_cell_setter",
    "pde.backends.numpy.backend:NumpyBackend.make_full_data_setter",
    "pde.backends.base:BackendBase.make_operator",
    "pde.backends.scipy.operators.cartesian:_get_laplace_matrix",
    "pde.backends.scipy.operators.polar_sym:_get_laplace_matrix",
    "pde.backends.scipy.operators.spherical_sym:_get_laplace_matrix",
    "pde.backends.scipy.operators.cylindrical_sym:_get_laplace_matrix",
    "pde.grids.boundaries.local:ConstBC1stOrderBase.get_sparse_matrix_data",
    "pde.grids.boundaries.local:ConstBC2ndOrderBase.get_sparse_matrix_data",
    "pde.backends.numba._boundaries:make_virtual_point_evaluator",
]
ASSUMPTIONS = [
    "field contents symbolic in [-4, 4]; boundary-condition values are concrete (several per type, inhomogeneous per-face arrays included) because the cached entry points hash them; geometry concrete anisotropic dyadic",
    "the compiled route is composed in the harness exactly as NumbaBackend.make_operator's apply_op_impl does: make_full_data_setter(bcs)(arr_full, arr, args) followed by the raw kernel (3 lines mirrored from pde/backends/numba/backend.py)",
    "sparse matrices are built by the real _get_laplace_matrix with concrete floats and applied to the symbolic vector by the harness (M @ x + v)",
    "schedules: sufficient condition - in every nb.prange loop different outer iterations store to different elements, nothing stored is loaded, and every scalar read is assigned earlier in the same iteration or is loop-invariant; decided for symbolic (unbounded) loop extents by integer queries on the subscripts extracted from the source",
]
STUBS = B.STUBS + ["scipy.sparse matrices are converted to dense float arrays before being applied to symbols"]
OUTSIDE = ["LLVM lowering / real thread interleavings (replaced by the race-freedom condition)", "numba_mpi, jax, torch backends", "symbolic BC values on cached routes (see C02 for symbolic values on the setters)"]
BOUNDS = {"max_paths": 50, "tmax": 600.0, "query_timeout_ms": 20000}
EXPLANATION = "route-vs-route equality of result terms for all field contents, per configuration; prange race-freedom for all loop extents"
SC = 4096


def bounds_text(tier):
    return "grids with 2-3 cells per axis; every registered operator; BC types rotated over the faces; 2 concrete value sets"


VALS = [0.75, -1.25, 0.5, 2.0, -0.5, 1.5]


def _bc_spec(grid, rank, types, rot, inhom, dim):
    """concrete boundary-condition specification; rotating types over the faces"""
    spec = {}
    for k, (a, upper) in enumerate(B._faces(grid)):
        typ = types[(k + rot) % len(types)]
        normal = typ.startswith("normal_")
        tshape = (dim,) * (rank - 1 if normal else rank)
        bshape = tuple(n for i, n in enumerate(grid.shape) if i != a)
        v = VALS[(k + rot) % len(VALS)]
        if inhom and bshape:
            val = np.fromfunction(lambda *ix: v + sum((j + 1) * 0.25 * x for j, x in enumerate(ix)), tshape + bshape)
        elif tshape:
            val = np.fromfunction(lambda *ix: v + sum((j + 1) * 0.5 * x for j, x in enumerate(ix)), tshape)
        else:
            val = v
        side = B._side_name(grid, a, upper)
        if typ.endswith("mixed"):
            # (a scalar coefficient with a per-face const raises ValueError in py-pde: both get the same format)
            gam = np.abs(val) if isinstance(val, np.ndarray) else abs(v)
            spec[side] = {"type": typ, "value": gam, "const": val}
        else:
            spec[side] = {"type": typ, "value": val}
    for a in range(grid.num_axes):
        if grid.periodic[a]:
            spec[grid.axes[a]] = "periodic"
    return spec


def _raw(fn):
    return inspect.unwrap(fn)


def scenario_routes(env, cfg):
    import pde
    from pde.backends import get_backend

    B._prepare(env.sym)
    gspec = dict(B.GRIDS[cfg["grid"]], geometry="dyadic")
    if cfg.get("isotropic"):
        gspec["isotropic"] = True
    grid, geom = X.make_grid(env, gspec)
    op = cfg["op"]
    rank_in, rank_out = X.RANKS[op]
    dim = grid.dim
    # normal-only conditions determine just the normal component's ghost cells: admissible for the operators
    # that read nothing else (divergence-type); the others would read uninitialised memory
    types = B.CONST_TYPES + (B.NORMAL_TYPES if op in ("divergence", "tensor_divergence") else [])
    spec = _bc_spec(grid, rank_in, types, cfg["rot"], cfg.get("inhom", False), dim)
    valid_shape = (dim,) * rank_in + grid.shape
    x = env.array("u", valid_shape, -4, 4)
    if grid.__class__.__name__ == "SphericalSymGrid" and rank_in >= 1:
        # documented preconditions of the spherical kernels: purely radial vectors / admissible tensors
        mask = np.zeros(valid_shape, dtype=bool)
        if rank_in == 1:
            mask[0] = True
        else:
            mask[0, 0] = True
            mask[1, 1] = True
        for idx in np.ndindex(*valid_shape):
            if not mask[idx]:
                x[idx] = 0
        if rank_in == 2:
            x[2, 2] = x[1, 1]
    cls = {0: pde.ScalarField, 1: pde.VectorField, 2: pde.Tensor2Field}[rank_in]
    dtype = object if env.sym else float
    opts = cfg.get("opts", {})
    nb = get_backend("numba")
    results = {}

    def field():
        f = cls(grid, dtype=dtype)
        f.data = x
        return f

    # R1: field API
    results["field.apply_operator"] = np.array(field().apply_operator(op, bc=spec, backend="numba", **opts).data, copy=True)
    out_cls = {0: pde.ScalarField, 1: pde.VectorField, 2: pde.Tensor2Field}[rank_out]
    o = out_cls(grid, dtype=dtype)
    field().apply_operator(op, bc=spec, out=o, backend="numba", **opts)
    results["field.apply_operator(out=)"] = np.array(o.data, copy=True)
    # R2: grid.make_operator on the numba backend (python body; uncached entry to avoid hashing symbols)
    bcs = grid.get_boundary_conditions(spec, rank=rank_in)
    f2 = grid.make_operator(op, bc=spec, backend="numba", **opts)
    results["grid.make_operator[numba]"] = np.array(f2(np.array(x, copy=True)), copy=True)
    out2 = np.empty((dim,) * rank_out + grid.shape, dtype=dtype)
    f2(np.array(x, copy=True), out2)
    results["grid.make_operator[numba](out=)"] = out2
    # R3: the compiled route's ingredients, composed as apply_op_impl does
    setter = nb.make_full_data_setter(bcs)
    raw = grid.make_operator_no_bc(op, backend="numba", **opts)
    npx = X._NpProxy(np)
    arr_full = npx.empty((dim,) * rank_in + grid._shape_full, dtype=dtype)  # uninitialised memory = fresh symbols
    setter(arr_full, np.array(x, copy=True), args=None)
    out3 = np.empty((dim,) * rank_out + grid.shape, dtype=dtype)
    raw(arr_full, out3)
    results["compiled-route-ingredients"] = out3
    # R3b: compiled ghost-cell setter + raw operator
    gset = nb.make_ghost_cell_setter(bcs)
    arr_full2 = np.empty((dim,) * rank_in + grid._shape_full, dtype=dtype)
    arr_full2[...] = 0
    arr_full2[(..., *grid._idx_valid)] = x
    gset(arr_full2, args=None) if env.sym else gset(arr_full2)
    out3b = np.empty((dim,) * rank_out + grid.shape, dtype=dtype)
    raw(arr_full2, out3b)
    results["make_ghost_cell_setter+make_operator_no_bc"] = out3b
    # R3c: interpreted setter + raw operator
    arr_full3 = np.empty((dim,) * rank_in + grid._shape_full, dtype=dtype)
    arr_full3[...] = 0
    arr_full3[(..., *grid._idx_valid)] = x
    bcs.set_ghost_cells(arr_full3)
    out3c = np.empty((dim,) * rank_out + grid.shape, dtype=dtype)
    raw(arr_full3, out3c)
    results["set_ghost_cells+make_operator_no_bc"] = out3c
    # R4: scipy backend
    if cfg.get("scipy"):
        f4 = grid.make_operator(op, bc=spec, backend="scipy")
        results["grid.make_operator[scipy]"] = np.array(f4(np.array(x, copy=True)), copy=True)
    # R5: sparse matrix used by the Poisson solvers
    if op == "laplace" and cfg.get("matrix"):
        modname = {"CartesianGrid": "cartesian", "UnitGrid": "cartesian", "PolarSymGrid": "polar_sym", "SphericalSymGrid": "spherical_sym", "CylindricalSymGrid": "cylindrical_sym"}[grid.__class__.__name__]
        mod = importlib.import_module(f"pde.backends.scipy.operators.{modname}")
        import pde as _pde

        # the matrix is assembled from concrete floats: use a float twin of the grid and conditions
        M, v = mod._get_laplace_matrix(bcs)
        M = np.asarray(M.todense(), dtype=float)
        v = np.asarray(v.todense(), dtype=float).reshape(-1)
        xf = list(np.asarray(x, dtype=dtype).flat)
        res = []
        for i in range(M.shape[0]):
            s = float(v[i]) if not env.sym else X.F(float(v[i]))
            for j in range(M.shape[1]):
                if M[i, j] != 0:
                    s = s + (X.F(float(M[i, j])) if env.sym else float(M[i, j])) * xf[j]
            res.append(s)
        results["sparse-matrix(M@x+v)"] = np.array(res, dtype=dtype).reshape(grid.shape)
    names = list(results)
    ref = names[0]
    env.observe("ref", results[ref])
    for n in names[1:]:
        env.close(f"{ref}={n}", list(results[ref].flat), list(results[n].flat), scale=SC)
    env.reach()


def scenario_routes_args(env, cfg):
    """routes that forward run-time arguments (`args`, e.g. the time) to boundary conditions that depend on them"""
    import pde
    from pde.backends import get_backend

    B._prepare(env.sym)
    grid, geom = X.make_grid(env, dict(B.GRIDS[cfg["grid"]], geometry="dyadic"))
    op = cfg["op"]
    rank_in, rank_out = X.RANKS[op]
    assert rank_in == 0
    dim = grid.dim
    t = env.real("t", -2, 2)
    # expression conditions that depend on time (and on the coordinates along the face), rotated over the faces
    spec = {}
    forms = ["value_expression", "derivative_expression"]
    for k, (a, upper) in enumerate(B._faces(grid)):
        others = [grid.axes[i] for i in range(grid.num_axes) if i != a]
        text = f"{0.5 + 0.25 * k} + {1 + k}*t" + "".join(f" + 0.5*{nme}*t" for nme in others)
        spec[B._side_name(grid, a, upper)] = {forms[(k + cfg.get("rot", 0)) % 2]: text}
    for a in range(grid.num_axes):
        if grid.periodic[a]:
            spec[grid.axes[a]] = "periodic"
    x = env.array("u", grid.shape, -4, 4)
    dtype = object if env.sym else float
    if env.sym:
        args = {"t": t}
    else:
        from pde.tools.numba import numba_dict

        args = numba_dict(t=float(t))
    nb = get_backend("numba")
    results = {}
    f = pde.ScalarField(grid, dtype=dtype)
    f.data = x
    results["field.apply_operator(args)"] = np.array(f.apply_operator(op, bc=spec, backend="numba", args=args).data, copy=True)
    bcs = grid.get_boundary_conditions(spec, rank=0)
    captured = {}
    nbmod = importlib.import_module("pde.backends.numba.backend")
    saved_overload = nbmod.nb_overload
    if env.sym:
        # un-jitted run: numba never calls the overload of `apply_op`; capture it so that its two specialisations
        # (the function bodies numba compiles for `out is None` / `out` given) are executed as well
        def _capture(fn, **kw):
            def deco(ol):
                captured[fn.__name__] = ol
                return ol

            return deco

        nbmod.nb_overload = _capture
    try:
        f2 = nb.make_operator(grid, op, bcs=bcs)
    finally:
        nbmod.nb_overload = saved_overload
    shape_out = (dim,) * rank_out + grid.shape
    results["make_operator[numba](args)"] = np.array(f2(np.array(x, copy=True), None, args), copy=True)
    out2 = np.empty(shape_out, dtype=dtype)
    f2(np.array(x, copy=True), out2, args)
    results["make_operator[numba](out=,args)"] = out2
    if env.sym:
        import numba as _nb

        ol = captured["apply_op"]
        impl_alloc = ol(None, _nb.types.none, None)
        impl_out = ol(None, _nb.types.float64[:], None)
        results["numba-overload:allocating-specialisation(args)"] = np.array(impl_alloc(np.array(x, copy=True), None, args), copy=True)
        out3 = np.empty(shape_out, dtype=dtype)
        impl_out(np.array(x, copy=True), out3, args)
        results["numba-overload:out-specialisation(args)"] = out3
    # interpreted setter + raw operator
    raw = grid.make_operator_no_bc(op, backend="numba")
    arr_full = np.empty(grid._shape_full, dtype=dtype)
    arr_full[...] = 0
    arr_full[tuple(grid._idx_valid)] = x
    bcs.set_ghost_cells(arr_full, args=args)
    out4 = np.empty(shape_out, dtype=dtype)
    raw(arr_full, out4)
    results["set_ghost_cells(args)+make_operator_no_bc"] = out4
    # reference: the same conditions with the time substituted as a constant
    spec_const = {}
    for k, (a, upper) in enumerate(B._faces(grid)):
        others = [grid.axes[i] for i in range(grid.num_axes) if i != a]
        coords = [X.full_positions(geom, grid.shape)[i][1:-1] for i in range(grid.num_axes) if i != a]
        bshape = tuple(n for i, n in enumerate(grid.shape) if i != a)
        val = np.empty(bshape, dtype=dtype)
        for idx in np.ndindex(*bshape):
            v = (0.5 + 0.25 * k) + (1 + k) * t
            for j, i in enumerate(idx):
                v = v + 0.5 * coords[j][i] * t
            val[idx] = v
        typ = forms[(k + cfg.get("rot", 0)) % 2].replace("_expression", "")
        spec_const[B._side_name(grid, a, upper)] = {"type": typ, "value": val if bshape else val[()]}
    for a in range(grid.num_axes):
        if grid.periodic[a]:
            spec_const[grid.axes[a]] = "periodic"
    f5 = pde.ScalarField(grid, dtype=dtype)
    f5.data = x
    results["constant-conditions-with-the-time-substituted"] = np.array(f5.apply_operator(op, bc=spec_const, backend="numba").data, copy=True)
    names = list(results)
    ref = names[0]
    env.observe("ref", results[ref])
    for n in names[1:]:
        env.close(f"{ref}={n}", list(results[ref].flat), list(results[n].flat), scale=SC)
    env.reach()


# ----------------------------------------------------------------------------- schedules (prange race freedom)


PLANTED = {
    "carried-scalar": """
def k(arr, out):
    for i in nb.prange(1, n + 1):
        for j in range(1, m + 1):
            if j > 1:
                acc = acc + arr[i, j]
            else:
                acc = arr[i, j]
            out[i - 1, j - 1] = acc + carry
        carry = acc
""",
    "store-collision": """
def k(arr, out):
    for i in nb.prange(1, n + 1):
        for j in range(1, m + 1):
            out[j - 1] = arr[i, j]
""",
    "reads-what-it-stores": """
def k(arr, out):
    for i in nb.prange(1, n + 1):
        out[i] = arr[i]
        out[i + 1] = out[i - 1] + arr[i]
""",
}


def _prange_loops(planted=None):
    """yield (module, function qualname, ast.For node, source file, line) for every nb.prange loop"""
    if planted:
        tree = ast.parse(PLANTED[planted])
        for fn in ast.walk(tree):
            if isinstance(fn, ast.FunctionDef):
                for node in ast.walk(fn):
                    if isinstance(node, ast.For) and isinstance(node.iter, ast.Call) and isinstance(node.iter.func, ast.Attribute) and node.iter.func.attr == "prange":
                        yield "planted", fn.name, node, "<planted>", node.lineno
        return
    mods = ["pde.backends.numba.operators.cartesian", "pde.backends.numba.operators.cylindrical_sym", "pde.backends.numba.operators.polar_sym", "pde.backends.numba.operators.spherical_sym", "pde.backends.numba.operators.common", "pde.backends.numba.backend", "pde.backends.numba.grids", "pde.backends.numba._boundaries", "pde.backends.numba._solvers"]
    for mn in mods:
        m = importlib.import_module(mn)
        src = inspect.getsource(m)
        tree = ast.parse(src)
        for fn in ast.walk(tree):
            if isinstance(fn, (ast.FunctionDef,)):
                for node in ast.walk(fn):
                    if isinstance(node, ast.For) and isinstance(node.iter, ast.Call) and isinstance(node.iter.func, ast.Attribute) and node.iter.func.attr == "prange":
                        yield mn, fn.name, node, m.__file__, node.lineno


def _aliases(fn_node):
    """names bound to views of arrays inside the kernel: out_rr = out[0, 0] …  → {alias: (base, fixed prefix)}"""
    al = {}
    for node in ast.walk(fn_node):
        if isinstance(node, ast.Assign):
            targets = node.targets[0]
            vals = node.value
            pairs = []
            if isinstance(targets, ast.Tuple) and isinstance(vals, ast.Tuple) and len(targets.elts) == len(vals.elts):
                pairs = list(zip(targets.elts, vals.elts))
            elif isinstance(targets, ast.Tuple) and isinstance(vals, ast.Name):
                for k, t in enumerate(targets.elts):
                    if isinstance(t, ast.Name):
                        al[t.id] = (vals.id, (k,))
                continue
            else:
                pairs = [(targets, vals)]
            for t, v in pairs:
                if isinstance(t, ast.Name) and isinstance(v, ast.Subscript) and isinstance(v.value, ast.Name):
                    al[t.id] = (v.value.id, ast.unparse(v.slice))
    return al


def scenario_schedules(env, cfg):
    """race freedom of every nb.prange loop, for all loop extents"""
    import z3

    n_loops = 0
    for mn, fname, loop, file, line in _prange_loops(cfg.get("planted")):
        n_loops += 1
        ivar = loop.target.id
        tag = f"{mn.split('.')[-1]}.{fname}@{line}"
        # enclosing function (for aliases)
        stores, loads, assigned_scalars = [], [], []
        inner_vars = {ivar}
        for node in ast.walk(loop):
            if isinstance(node, ast.For) and node is not loop and isinstance(node.target, ast.Name):
                inner_vars.add(node.target.id)
        # collect stores / loads in order of appearance
        problems = []
        defined = set()

        def visit_stmt(stmt):
            if isinstance(stmt, ast.For):
                if isinstance(stmt.target, ast.Name):
                    defined.add(stmt.target.id)
                for s in stmt.body:
                    visit_stmt(s)
                return
            if isinstance(stmt, ast.If):
                check_loads(stmt.test)
                before = set(defined)
                branches = []
                for body in (stmt.body, stmt.orelse):
                    defined_b = set(before)
                    saved = set(defined)
                    defined.clear()
                    defined.update(before)
                    for s in body:
                        visit_stmt(s)
                    branches.append(set(defined))
                    defined.clear()
                    defined.update(saved)
                # a scalar is definitely assigned after the if only when all branches assign it
                if stmt.orelse:
                    defined.update(set.intersection(*branches))
                else:
                    defined.update(before)
                # elif-chains over an exhaustive literal ('method') set are handled by numba at compile time; the
                # conservative rule above may flag them, so names assigned in every non-empty branch are accepted
                allb = [b - before for b in branches if b - before]
                if allb:
                    defined.update(set.intersection(*allb))
                return
            if isinstance(stmt, (ast.Assign, ast.AugAssign, ast.AnnAssign)):
                value = stmt.value
                if value is not None:
                    check_loads(value)
                targets = stmt.targets if isinstance(stmt, ast.Assign) else [stmt.target]
                for t in targets:
                    for el in t.elts if isinstance(t, ast.Tuple) else [t]:
                        if isinstance(el, ast.Name):
                            if isinstance(stmt, ast.AugAssign) and el.id not in defined:
                                problems.append(f"scalar '{el.id}' updated in place without being initialised in the iteration")
                            defined.add(el.id)
                        elif isinstance(el, ast.Subscript):
                            check_loads(el.slice)
                            if isinstance(stmt, ast.AugAssign):
                                loads.append(el)
                            stores.append(el)
                return
            if isinstance(stmt, ast.Expr):
                check_loads(stmt.value)
                return
            if isinstance(stmt, (ast.Pass, ast.Continue)):
                return
            problems.append(f"statement {type(stmt).__name__} not modelled")

        def check_loads(expr):
            for n in ast.walk(expr):
                if isinstance(n, ast.Subscript) and isinstance(n.ctx, ast.Load):
                    loads.append(n)
                elif isinstance(n, ast.Name) and isinstance(n.ctx, ast.Load):
                    if n.id in scalars_assigned_somewhere and n.id not in defined:
                        problems.append(f"scalar '{n.id}' may be read before it is assigned in the same iteration")

        scalars_assigned_somewhere = set()
        for n in ast.walk(loop):
            if isinstance(n, (ast.Assign, ast.AugAssign)):
                ts = n.targets if isinstance(n, ast.Assign) else [n.target]
                for t in ts:
                    for el in t.elts if isinstance(t, ast.Tuple) else [t]:
                        if isinstance(el, ast.Name):
                            scalars_assigned_somewhere.add(el.id)
        defined.add(ivar)
        for s in loop.body:
            visit_stmt(s)
        env.prove(f"schedule:{tag}:loop-body-modelled-and-scalars-iteration-local", not problems)
        if problems:
            env.note(f"problems:{tag}", problems)
        # stored arrays
        def base_of(sub):
            b = sub.value
            while isinstance(b, ast.Subscript):
                b = b.value
            return b.id if isinstance(b, ast.Name) else None

        stored_bases = {base_of(s) for s in stores}
        # (ii) nothing that is stored is loaded
        loaded_bases = {base_of(l) for l in loads}
        env.prove(f"schedule:{tag}:no-stored-array-is-loaded", not (stored_bases & loaded_bases) and None not in stored_bases)
        # (i) different outer iterations store to different elements: subscripts as affine integer terms
        def to_z3(node, suffix):
            if isinstance(node, ast.Constant) and isinstance(node.value, int):
                return z3.IntVal(node.value)
            if isinstance(node, ast.Name):
                if node.id in inner_vars:
                    return z3.Int(node.id + suffix)
                return z3.Int(node.id)  # loop-invariant
            if isinstance(node, ast.BinOp) and isinstance(node.op, (ast.Add, ast.Sub)):
                l, r = to_z3(node.left, suffix), to_z3(node.right, suffix)
                return l + r if isinstance(node.op, ast.Add) else l - r
            if isinstance(node, ast.UnaryOp) and isinstance(node.op, ast.USub):
                return -to_z3(node.operand, suffix)
            if isinstance(node, ast.BinOp) and isinstance(node.op, ast.Mult):
                return to_z3(node.left, suffix) * to_z3(node.right, suffix)
            raise ValueError(ast.unparse(node))

        ok = True
        detail = []
        for s1, s2 in itertools.combinations_with_replacement(stores, 2):
            if base_of(s1) != base_of(s2):
                continue
            e1 = s1.slice.elts if isinstance(s1.slice, ast.Tuple) else [s1.slice]
            e2 = s2.slice.elts if isinstance(s2.slice, ast.Tuple) else [s2.slice]
            if len(e1) != len(e2):
                ok = False
                detail.append(f"{ast.unparse(s1)} vs {ast.unparse(s2)}: different subscript arity")
                continue
            try:
                eqs = [to_z3(a, "_1") == to_z3(b, "_2") for a, b in zip(e1, e2)]
            except ValueError as err:
                ok = False
                detail.append(f"subscript not affine: {err}")
                continue
            sol = z3.Solver()
            sol.add(z3.Int(ivar + "_1") != z3.Int(ivar + "_2"))
            sol.add(*eqs)
            r = str(sol.check())
            env.p.stats.queries[r] = env.p.stats.queries.get(r, 0) + 1 if env.sym else 0
            if r != "unsat":
                ok = False
                detail.append(f"{ast.unparse(s1)} / {ast.unparse(s2)}: {r}")
        env.prove(f"schedule:{tag}:outer-iterations-store-to-distinct-elements", ok and len(stores) > 0)
        if detail:
            env.note(f"stores:{tag}", detail)
    env.prove("schedule:prange-loops-found", n_loops >= (1 if cfg.get("planted") else 5))
    env.note("prange_loops", n_loops)


def _case(name, **cfg):
    return {"name": name, "scenario": "scenario_routes", "cfg": cfg}


def cases(tier, seed):
    import os

    os.environ.setdefault("NUMBA_DISABLE_JIT", "1")
    from .c01_operators import _registry

    q = tier == "quick"
    out = [{"name": "schedules:prange-race-freedom", "scenario": "scenario_schedules", "cfg": {}, "validate_paths": 0}]
    reg = _registry("numba")
    sreg = _registry("scipy")
    for gname, spec in B.GRIDS.items():
        kind = {"unit": "cart"}.get(spec["kind"], spec["kind"])
        if gname == "unit2" and q:
            continue
        for op in sorted(reg.get(kind, {})):
            if op not in X.RANKS:
                continue
            rank_in = X.RANKS[op][0]
            ntypes = 8 if op in ("divergence", "tensor_divergence") else 4
            rots = range(ntypes) if not q else ((0, 1, 2, 3) if ntypes == 4 else (0, 3, 4, 7))
            if op == "laplace":
                rots = range(4)
            for rot in rots:
                for inhom in (False, True):
                    if q and inhom and (rot % 2 == 1) and op != "laplace":
                        continue
                    cfg = {"grid": gname, "op": op, "rot": rot, "inhom": inhom}
                    if op == "laplace":
                        cfg["matrix"] = True
                    if kind == "cart" and op in sreg.get("cart", {}):
                        if op in ("laplace", "vector_laplace"):
                            # scipy Laplacians need a uniform discretisation: extra isotropic variant
                            out.append(_case(f"{gname}:{op}:rot{rot}:{'inhom' if inhom else 'hom'}:isotropic+scipy", **dict(cfg, scipy=True, isotropic=True)))
                        else:
                            cfg["scipy"] = True
                    out.append(_case(f"{gname}:{op}:rot{rot}:{'inhom' if inhom else 'hom'}", **cfg))
    # run-time arguments (time) forwarded to time-dependent conditions on every route, with and without `out`
    for gname in ("cart1", "cart2", "cart2:periodic-x") if "cart2:periodic-x" in B.GRIDS else ("cart1", "cart2"):
        for op in ("laplace", "gradient"):
            for rot in (0, 1):
                out.append({"name": f"args:{gname}:{op}:rot{rot}:time-dependent-bc", "scenario": "scenario_routes_args", "cfg": {"grid": gname, "op": op, "rot": rot}})
    # annular / special grids for the matrix route (first/last row code paths)
    for gname in ("polar:hole", "sph:nohole", "cyl:hole", "cyl:periodic_z", "cart1", "cart3"):
        pass
    return out


CANARIES = [
    {
        "name": "compiled-setter-2nd-order-wrong-support",
        "case": "cart2:laplace:rot1:inhom",
        "patch": [("pde.backends.numba._boundaries:_make_const2ndorder_virtual_point_evaluator", "return data[0][bc_idx] + data[1][bc_idx] * val1 + data[3][bc_idx] * val2", "return data[0][bc_idx] + data[1][bc_idx] * val1 + data[3][bc_idx] * val1")],
        "expect": "compiled|make_ghost_cell_setter",
    },
    {
        "name": "matrix-3d-upper-z-scale",
        "case": "cart3:laplace:rot0:hom",
        "patch": [("pde.backends.scipy.operators.cartesian:_get_laplace_matrix_3d", "const, entries = bc_z.get_sparse_matrix_data((x, y, dim_z))\n                    vector[i(x, y, z)] += const * scale_z", "const, entries = bc_z.get_sparse_matrix_data((x, y, dim_z))\n                    vector[i(x, y, z)] += const * scale_y")],
        "expect": "sparse-matrix",
    },
    {
        "name": "prange-loop-with-carried-scalar",
        "case": "schedules:prange-race-freedom",
        "cfg": {"planted": "carried-scalar"},
        "expect": "scalars-iteration-local",
    },
    {
        "name": "prange-loop-store-collision",
        "case": "schedules:prange-race-freedom",
        "cfg": {"planted": "store-collision"},
        "expect": "distinct-elements",
    },
    {
        "name": "prange-loop-reads-what-it-stores",
        "case": "schedules:prange-race-freedom",
        "cfg": {"planted": "reads-what-it-stores"},
        "expect": "no-stored-array-is-loaded",
    },
]
