"""C18 — Poisson/Laplace solvers return solutions of the discrete problem.

Decomposed into (a) matrix == operator for all inputs (the C03 matrix route, on every grid class,
annular ones included, and every BC type on every side), and (b) the control flow of the real
``make_general_poisson_solver.solve_poisson`` with the sparse solvers replaced by
non-deterministic stubs (arbitrary vector / MatrixRankWarning): on every returning path the
returned field, fed into the real discrete Laplacian with the same boundary conditions,
reproduces the right-hand side within the solver's own acceptance tolerance; otherwise
RuntimeError is raised.
"""

from __future__ import annotations

import importlib
import warnings

import numpy as np

from symx import ops as O

from . import _ops as X
from . import c02_boundaries as B
from . import c03_routes as R
from .c03_routes import scenario_routes  # noqa: F401  (part (a))

ID = "C18"
LEVEL = "model_checking"
FUNCTIONS = [
    "pde.backends.scipy.operators.common:make_general_poisson_solver",
    "pde.backends.scipy.operators.cartesian:_get_laplace_matrix_1d",
    "pde.backends.scipy.operators.cartesian:_get_laplace_matrix_2d",
    "pde.backends.scipy.operators.cartesian:_get_laplace_matrix_3d",
    "pde.backends.scipy.operators.cartesian:make_poisson_solver",
    "pde.backends.scipy.operators.polar_sym:_get_laplace_matrix",
    "pde.backends.scipy.operators.polar_sym:make_poisson_solver",
    "pde.backends.scipy.operators.spherical_sym:_get_laplace_matrix",
    "pde.backends.scipy.operators.spherical_sym:make_poisson_solver",
    "pde.backends.scipy.operators.cylindrical_sym:_get_laplace_matrix",
    "pde.backends.scipy.operators.cylindrical_sym:make_poisson_solver",
    "pde.grids.boundaries.local:ConstBC1stOrderBase.get_sparse_matrix_data",
    "pde.grids.boundaries.local:ConstBC2ndOrderBase.get_sparse_matrix_data",
    "pde.fields.datafield_base:DataFieldBase.apply_operator",
]
ASSUMPTIONS = [
    "scipy.sparse.linalg.spsolve returns an ARBITRARY vector or raises MatrixRankWarning, lsmr returns an arbitrary vector (non-deterministic stubs): the quality of SuperLU/LSMR is not claimed, only that their output is checked before it is returned",
    "right-hand sides symbolic in [-4, 4]; candidate solutions symbolic in [-64, 64]; boundary-condition values concrete; geometry concrete anisotropic dyadic",
    "'to solver accuracy' = the solver's own acceptance test |M x - b| <= 1e-5 + 1e-5 |b| per cell (plus 1e-9)",
]
STUBS = B.STUBS + ["scipy.sparse.linalg.spsolve / lsmr: non-deterministic", "csc_matrix.dot on symbolic vectors: dense exact product with the real matrix entries"]
OUTSIDE = ["numerical quality of SuperLU / LSMR", "grids with more than 3 cells per axis", "the thin wrappers solve_poisson_equation/solve_laplace_equation allocate float fields and are exercised by the float replays only"]
BOUNDS = {"max_paths": 400, "tmax": 600.0, "query_timeout_ms": 20000}
EXPLANATION = "matrix-vs-operator equality for all fields (a) plus all paths of the real accept/fallback/reject logic with arbitrary solver outputs (b)"


def bounds_text(tier):
    return "grids with 2-3 cells per axis, all four BC types rotated over all faces, homogeneous and per-face values"


class _SymCSC:
    def __init__(self, mat):
        self.mat = mat
        self.dense = np.asarray(mat.todense(), dtype=float)
        self.shape = mat.shape

    def __abs__(self):
        return abs(self.mat)

    def max(self):
        return self.mat.max()

    def dot(self, x):
        x = np.asarray(x)
        if x.dtype != object:
            return self.mat.dot(x)
        out = np.empty(self.dense.shape[0], dtype=object)
        for i in range(self.dense.shape[0]):
            s = 0
            for j in range(self.dense.shape[1]):
                if self.dense[i, j] != 0:
                    s = s + X.F(float(self.dense[i, j])) * x[j]
            out[i] = s
        return out


class _MatWrap:
    def __init__(self, m):
        self.m = m

    def tocsc(self):
        return _SymCSC(self.m.tocsc())

    def toarray(self):
        return self.m.toarray()


def scenario_solver(env, cfg):
    import pde
    from scipy import sparse
    from scipy.sparse.linalg import MatrixRankWarning

    B._prepare(env.sym)
    gspec = dict(B.GRIDS[cfg["grid"]], geometry="dyadic")
    grid, geom = X.make_grid(env, gspec)
    spec = R._bc_spec(grid, 0, B.CONST_TYPES if not cfg.get("neumann") else ["derivative"], cfg["rot"], cfg.get("inhom", False), grid.dim)
    if cfg.get("neumann"):
        spec = "auto_periodic_neumann"
    bcs = grid.get_boundary_conditions(spec, rank=0)
    modname = {"CartesianGrid": "cartesian", "UnitGrid": "cartesian", "PolarSymGrid": "polar_sym", "SphericalSymGrid": "spherical_sym", "CylindricalSymGrid": "cylindrical_sym"}[grid.__class__.__name__]
    mod = importlib.import_module(f"pde.backends.scipy.operators.{modname}")
    common = importlib.import_module("pde.backends.scipy.operators.common")
    M, v = mod._get_laplace_matrix(bcs)
    n = int(np.prod(grid.shape))
    rhs = env.array("rhs", grid.shape, -4, 4)
    cand1 = env.array("spsolve", (n,), -64, 64)
    cand2 = env.array("lsmr", (n,), -64, 64)
    rank_warning = env.real("rankwarn", 0, 1)
    calls = []

    def spsolve(mat, b, *a, **k):
        calls.append("spsolve")
        if env.is_true(rank_warning > 0.5):
            warnings.warn("singular", MatrixRankWarning, stacklevel=1)
            raise MatrixRankWarning("singular")
        return np.array(cand1, copy=True)

    def lsmr(mat, b, *a, **k):
        calls.append("lsmr")
        return (np.array(cand2, copy=True),)

    orig = (sparse.linalg.spsolve, sparse.linalg.lsmr)
    sparse.linalg.spsolve, sparse.linalg.lsmr = spsolve, lsmr
    try:
        solver = common.make_general_poisson_solver(_MatWrap(M), _MatWrap(v))
        out = np.empty(grid.shape, dtype=object if env.sym else float)
        raised = False
        try:
            solver(rhs, out)
        except RuntimeError:
            raised = True
    finally:
        sparse.linalg.spsolve, sparse.linalg.lsmr = orig
    env.observe("raised", raised)
    Md = np.asarray(M.todense(), dtype=float)
    vd = np.asarray(v.todense(), dtype=float).reshape(-1)

    def residual_ok(x, slack=1e-9):
        conds = []
        for i in range(n):
            s = 0
            for j in range(n):
                if Md[i, j] != 0:
                    s = s + (X.F(float(Md[i, j])) if env.sym else float(Md[i, j])) * x[j]
            b = rhs.flat[i] - (X.F(float(vd[i])) if env.sym else float(vd[i]))
            conds.append(abs(s - b) <= 1e-5 + 1e-5 * abs(b) + slack)
        return O.land(*conds)

    if raised:
        # an error is legitimate only when no candidate passed the acceptance test
        env.prove("error-only-when-no-candidate-solves-the-problem", O.lnot(residual_ok(cand2, 0)))
        if calls == ["spsolve", "lsmr"] and not env.is_true(rank_warning > 0.5):
            env.prove("error-only-when-spsolve-candidate-fails-too", O.lnot(residual_ok(cand1, 0)))
    else:
        res = list(out.flat)
        # the returned field is one of the candidates and solves the discrete problem
        env.prove("returned-field-solves-M.x=rhs-v-to-solver-accuracy", residual_ok(res))
        # fed back into the real discrete Laplacian with the same boundary conditions
        f = pde.ScalarField(grid, np.array(out, copy=True), dtype=object if env.sym else float)
        lap = f.apply_operator("laplace", bc=spec, backend="numba", **({"conservative": True} if modname == "spherical_sym" else {}))
        conds = []
        for i in range(n):
            b = rhs.flat[i] - float(vd[i])
            conds.append(abs(lap.data.flat[i] - rhs.flat[i]) <= 1e-5 + 1e-5 * abs(b) + 1e-6)
        for i, cond in enumerate(conds):  # (one query per cell: much faster than the conjunction)
            env.prove(f"laplace(returned-field)=rhs-to-solver-accuracy:cell{i}", cond)
    env.reach()


def scenario_toplevel(env, cfg):
    """solve_poisson_equation / solve_laplace_equation: a field is returned only if it solves the discrete problem; a problem
    whose linear solve fails is reported as an error (linear algebra = the same non-deterministic stubs)"""
    import pde
    from scipy import sparse
    from scipy.sparse.linalg import MatrixRankWarning

    B._prepare(env.sym)
    grid, geom = X.make_grid(env, dict(B.GRIDS[cfg["grid"]], geometry="dyadic"))
    flux = cfg.get("flux", 1)
    spec = {ax: ("periodic" if grid.periodic[i] else {"derivative": flux}) for i, ax in enumerate(grid.axes)}
    n = int(np.prod(grid.shape))
    laplace_only = cfg.get("laplace_equation", False)
    rhs = np.zeros(grid.shape, dtype=object if env.sym else float) if laplace_only else env.array("rhs", grid.shape, -4, 4)
    cand1 = env.array("spsolve", (n,), -64, 64)
    cand2 = env.array("lsmr", (n,), -64, 64)
    rank_warning = env.real("rankwarn", 0, 1)

    def spsolve(mat, b, *a, **k):
        if env.is_true(rank_warning > 0.5):
            warnings.warn("singular", MatrixRankWarning, stacklevel=1)
            raise MatrixRankWarning("singular")
        return np.array(cand1, copy=True)

    def lsmr(mat, b, *a, **k):
        return (np.array(cand2, copy=True),)

    modname = {"CartesianGrid": "cartesian", "UnitGrid": "cartesian", "PolarSymGrid": "polar_sym", "SphericalSymGrid": "spherical_sym", "CylindricalSymGrid": "cylindrical_sym"}[grid.__class__.__name__]
    mod = importlib.import_module(f"pde.backends.scipy.operators.{modname}")
    lap_mod = importlib.import_module("pde.pdes.laplace")
    real_general = mod.make_general_poisson_solver

    def wrapped_general(matrix, vector, method="auto"):
        return real_general(_MatWrap(matrix), _MatWrap(vector), method)

    saved_sf = lap_mod.ScalarField
    if env.sym:
        # the result field is allocated as float64 by the function under test: object dtype for the symbolic run
        def _sf(grid, data="zeros", **kw):
            kw.setdefault("dtype", object)
            return saved_sf(grid, data, **kw)

        lap_mod.ScalarField = _sf
    orig = (sparse.linalg.spsolve, sparse.linalg.lsmr)
    sparse.linalg.spsolve, sparse.linalg.lsmr = spsolve, lsmr
    mod.make_general_poisson_solver = wrapped_general
    raised = False
    res = None
    try:
        if laplace_only:
            res = pde.solve_laplace_equation(grid, spec)
        else:
            f = pde.ScalarField(grid, np.array(rhs, copy=True), dtype=object if env.sym else float)
            res = pde.solve_poisson_equation(f, spec)
    except RuntimeError:
        raised = True
    finally:
        sparse.linalg.spsolve, sparse.linalg.lsmr = orig
        mod.make_general_poisson_solver = real_general
        lap_mod.ScalarField = saved_sf
    env.observe("raised", raised)
    if not raised:
        out = pde.ScalarField(grid, np.array(res.data, copy=True), dtype=object if env.sym else float)
        lap = out.apply_operator("laplace", bc=spec, backend="numba", **({"conservative": True} if modname == "spherical_sym" else {}))
        for i in range(n):
            env.prove(f"toplevel:laplace(returned-field)=rhs-to-solver-accuracy:cell{i}", abs(lap.data.flat[i] - rhs.flat[i]) <= 1e-5 + 1e-5 * (abs(rhs.flat[i]) + 4 * abs(flux) * 64) + 1e-6)
    env.prove("toplevel:returns-a-field-or-raises-RuntimeError", raised or res is not None)
    env.reach()


def cases(tier, seed):
    q = tier == "quick"
    out = []
    # (a) matrix == operator: all grids, all BC types on all sides (rotation), homogeneous and per-face values
    for gname in B.GRIDS:
        if gname == "unit2" and q:
            continue
        for rot in range(4):
            for inhom in (False, True):
                out.append({"name": f"matrix=operator:{gname}:rot{rot}:{'inhom' if inhom else 'hom'}", "scenario": "scenario_routes", "cfg": {"grid": gname, "op": "laplace", "rot": rot, "inhom": inhom, "matrix": True}})
    # (b) accept / fallback / reject logic
    for gname in ("cart1", "cart2", "polar:hole", "sph:hole", "sph:nohole", "cyl:hole") if q else list(B.GRIDS):
        for rot in (0, 3) if q else range(4):
            out.append({"name": f"solver-logic:{gname}:rot{rot}", "scenario": "scenario_solver", "cfg": {"grid": gname, "rot": rot}})
        out.append({"name": f"solver-logic:{gname}:pure-neumann", "scenario": "scenario_solver", "cfg": {"grid": gname, "rot": 0, "neumann": True}})
    # (c) the public functions on pure-Neumann problems with a net boundary flux (solvable only for compatible sources)
    for gname in ("cart1", "cart2", "sph:hole") if q else ("cart1", "cart2", "polar:hole", "sph:hole", "sph:nohole", "cyl:hole"):
        out.append({"name": f"toplevel:poisson:{gname}:neumann-flux", "scenario": "scenario_toplevel", "cfg": {"grid": gname}})
        out.append({"name": f"toplevel:laplace:{gname}:neumann-flux", "scenario": "scenario_toplevel", "cfg": {"grid": gname, "laplace_equation": True}})
    return out


CANARIES = [
    {
        "name": "acceptance-tolerance-scaled-by-matrix-norm",
        "case": "solver-logic:cart2:rot0",
        "patch": [
            ("pde.backends.scipy.operators.common:make_general_poisson_solver", "            if np.allclose(mat.dot(result), rhs, rtol=1e-5, atol=1e-5):", "            if np.allclose(mat.dot(result), rhs, rtol=1e-5, atol=1e-2):"),
            ("pde.backends.scipy.operators.common:make_general_poisson_solver", "if not np.allclose(mat.dot(result), rhs, rtol=1e-5, atol=1e-5):", "if not np.allclose(mat.dot(result), rhs, rtol=1e-5, atol=1e-2):"),
        ],
        "expect": "solver-accuracy",
    },
    {
        "name": "spherical-matrix-overwrites-inner-bc-entry",
        "case": "matrix=operator:sph:hole:rot3:hom",
        "patch": [("pde.backends.scipy.operators.spherical_sym:_get_laplace_matrix", "matrix[i, i + 1] += factor_h[i]", "matrix[i, i + 1] = factor_h[i]")],
        "expect": "sparse-matrix",
    },
]
