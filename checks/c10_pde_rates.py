"""C10 — a PDE's interpreted rate, compiled rate and advertised expression agree."""

from __future__ import annotations

import inspect
import itertools

import numpy as np

from symx import ops as O

from . import _ops as X
from . import c02_boundaries as B
from . import c16_interpolation as I

ID = "C10"
LEVEL = "model_checking"
FUNCTIONS = [
    "pde.pdes.diffusion:DiffusionPDE.evolution_rate",
    "pde.pdes.diffusion:DiffusionPDE.make_evolution_rate",
    "pde.pdes.allen_cahn:AllenCahnPDE.evolution_rate",
    "pde.pdes.allen_cahn:AllenCahnPDE.make_evolution_rate",
    "pde.pdes.cahn_hilliard:CahnHilliardPDE.evolution_rate",
    "pde.pdes.cahn_hilliard:CahnHilliardPDE.make_evolution_rate",
    "pde.pdes.kpz_interface:KPZInterfacePDE.evolution_rate",
    "pde.pdes.kpz_interface:KPZInterfacePDE.make_evolution_rate",
    "pde.pdes.kuramoto_sivashinsky:KuramotoSivashinskyPDE.evolution_rate",
    "pde.pdes.kuramoto_sivashinsky:KuramotoSivashinskyPDE.make_evolution_rate",
    "pde.pdes.swift_hohenberg:SwiftHohenbergPDE.evolution_rate",
    "pde.pdes.swift_hohenberg:SwiftHohenbergPDE.make_evolution_rate",
    "pde.pdes.wave:WavePDE.evolution_rate",
    "pde.pdes.wave:WavePDE.make_evolution_rate",
    "pde.pdes.klein_gordon:KleinGordonPDE.evolution_rate",
    "pde.pdes.klein_gordon:KleinGordonPDE.make_evolution_rate",
    "pde.pdes.pde:PDE.__init__",
    "pde.pdes.pde:PDE._prepare_cache",
    "pde.pdes.pde:PDE.evolution_rate",
    "pde.pdes.pde:PDE.make_evolution_rate",
    "pde.pdes.base:PDEBase.make_pde_rhs",
    "pde.pdes.base:expr_prod",
    "pde.backends.numpy.backend:NumpyBackend.make_pde_rhs",
    "pde.backends.numba.backend:NumbaBackend.make_pde_rhs",
]
ASSUMPTIONS = [
    "state contents symbolic in [-2, 2], time symbolic in [-2, 2]; parameters from two concrete sets per class (defaults and non-default, not 6-digit printable values such as 1/3); boundary conditions from an alphabet of homogeneous/inhomogeneous conditions, including different conditions for the different operators of one equation; concrete anisotropic dyadic geometry",
    "numpy vs numba rates: equal up to 1e-9*scale for all states; class vs expression-PDE built from the class's printed expression(s): up to 1e-5 relative (the 6 printed digits) and only for linear (homogeneous) boundary conditions, because the printed nested-operator form applies one condition to the combined argument",
    "expression PDEs beyond the class texts: explicit time dependence, constants, coordinate dependence, operator-specific boundary conditions (bc_ops), multi-field states; numpy vs numba and vs a rate assembled by the harness from the field API",
]
STUBS = I.STUBS
OUTSIDE = ["jax/torch backends", "numba lowering (tied in by replays)", "noise (C13)"]
BOUNDS = {"max_paths": 20, "tmax": 600.0, "query_timeout_ms": 30000}
EXPLANATION = "rate terms of every route compared for all states and times, per class/parameters/grid/BC assignment"
SC = 4096

BCA = {
    "default": None,
    "value0": {"value": 0},
    "derivative0": {"derivative": 0},
    "value1": {"value": 1},
    "derivative1": {"derivative": 0.5},
    "mixed": {"type": "mixed", "value": 1, "const": 0.5},
    "time": {"value_expression": "0.5 * t"},
}
HOMOGENEOUS = {"default", "value0", "derivative0"}

CLASSES = {
    "DiffusionPDE": {"params": [{}, {"diffusivity": 1 / 3}, {"diffusivity": 1.5e-9}], "bcs": ["bc"]},
    "AllenCahnPDE": {"params": [{}, {"interface_width": 0.7, "mobility": 1 / 3}], "bcs": ["bc"]},
    "CahnHilliardPDE": {"params": [{}, {"interface_width": 0.7}], "bcs": ["bc_c", "bc_mu"]},
    "KPZInterfacePDE": {"params": [{}, {"nu": 1 / 3, "lmbda": 0.7}, {"nu": 2.5e-9, "lmbda": 7e-9}], "bcs": ["bc"]},
    "KuramotoSivashinskyPDE": {"params": [{}, {"nu": 0.7}], "bcs": ["bc", "bc_lap"]},
    "SwiftHohenbergPDE": {"params": [{}, {"rate": 1 / 3, "kc2": 0.7, "delta": 1.3}], "bcs": ["bc", "bc_lap"]},
    "WavePDE": {"params": [{}, {"speed": 0.7}], "bcs": ["bc"], "collection": True},
    "KleinGordonPDE": {"params": [{}, {"speed": 0.7, "mass": 1.3}], "bcs": ["bc"], "collection": True},
}
GRIDS = {"cart1": {"kind": "cart", "shape": (3,)}, "cart2:periodic-x": {"kind": "cart", "shape": (3, 2), "periodic": (True, False)}, "sph:hole": {"kind": "sph", "shape": (3,), "hole": True}}


def bounds_text(tier):
    return "8 equation classes x 2 parameter sets x 3 grids x BC assignments (incl. different conditions per operator); 10 expression PDEs"


class _PdeNp(X._NpProxy):
    """pde.pdes.pde allocates its collection output with np.empty(shape) (float): symbolic runs need objects"""

    def empty(self, shape, dtype=None, **kw):
        from symx.values import _State

        if _State.ctx is not None and dtype in (None, float, np.double):
            return X._NpProxy.empty(self, shape, dtype=object)
        return X._NpProxy.empty(self, shape, dtype=float if dtype is None else dtype, **kw)


def _prepare(env):
    import importlib

    B._prepare(env.sym)
    I._prepare(env)
    if env.sym:
        m = importlib.import_module("pde.pdes.pde")
        if not isinstance(m.np, _PdeNp):
            m.np = _PdeNp(np)


def _state(env, grid, eq_cfg, eq):
    import pde

    dt = object if env.sym else float
    if eq_cfg.get("collection"):
        u = env.array("u", grid.shape, -2, 2)
        v = env.array("v", grid.shape, -2, 2)
        return pde.FieldCollection([pde.ScalarField(grid, u, dtype=dt), pde.ScalarField(grid, v, dtype=dt)], dtype=dt)
    return pde.ScalarField(grid, env.array("u", grid.shape, -2, 2), dtype=dt)


def scenario_class(env, cfg):
    import pde

    _prepare(env)
    env.nonlinear()
    env.exact_first_ms = 8000
    cname = cfg["cls"]
    ccfg = CLASSES[cname]
    grid, geom = X.make_grid(env, dict(GRIDS[cfg["grid"]], geometry="dyadic"))
    kwargs = dict(cfg["params"])
    for bcarg, bcname in zip(ccfg["bcs"], cfg["bcs"]):
        if BCA[bcname] is not None:
            kwargs[bcarg] = _with_periodic(grid, BCA[bcname])
    cls = getattr(pde, cname)
    eq = cls(**kwargs)
    state = _state(env, grid, ccfg, eq)
    t = env.real("t", -2, 2)
    x = np.array(state.data, copy=True)
    res = {}
    res["evolution_rate"] = np.array(eq.evolution_rate(state.copy(), t).data, copy=True)
    res["make_pde_rhs[numpy]"] = np.array(eq.make_pde_rhs(state.copy(), backend="numpy")(np.array(x, copy=True), t), copy=True)
    res["make_pde_rhs[numba]"] = np.array(cls(**kwargs).make_pde_rhs(state.copy(), backend="numba")(np.array(x, copy=True), t), copy=True)
    ref = "evolution_rate"
    for k in ("make_pde_rhs[numpy]", "make_pde_rhs[numba]"):
        env.close(f"{ref}={k}", list(res[ref].flat), list(res[k].flat), scale=SC)
    # generic expression PDE from the printed text (linear boundary conditions only)
    if all(b in HOMOGENEOUS for b in cfg["bcs"]) and len(set(cfg["bcs"])) == 1:
        text = getattr(eq, "expressions", None) or {"c": eq.expression}
        bc = BCA[cfg["bcs"][0]]
        gen = pde.PDE(dict(text), bc=_with_periodic(grid, bc) if bc is not None else "auto_periodic_neumann")
        st = state.copy()
        if not ccfg.get("collection"):
            st.label = "c"
        else:
            for f, nme in zip(st, text):
                f.label = nme
        for be in ("numpy", "numba"):
            if be == "numpy":
                got = np.array(gen.evolution_rate(st.copy(), t).data, copy=True)
            else:
                got = np.array(gen.make_pde_rhs(st.copy(), backend="numba")(np.array(x, copy=True), t), copy=True)
            # 6 printed significant digits of the parameters
            # 6 printed significant digits of each parameter: tolerance relative to the largest parameter
            pmax = max([abs(v) for v in cfg["params"].values()] + ([1.0] if not cfg["params"] else []))
            env.close(f"class-rate=PDE(printed-expression)[{be}]", list(got.flat), list(res[ref].flat), scale=256 * pmax, eps=1e-5)
    env.observe("rate", res[ref])
    env.reach()


EXPRS = [
    ("time-dependent", {"c": "laplace(c) * t + sin(t) * c"}, {}, None),
    ("constants", {"c": "k * laplace(c) + m"}, {"consts": {"k": 1 / 3, "m": 0.7}}, None),
    ("coordinate-dependent", {"c": "x * laplace(c) + c**2"}, {}, None),
    ("bc_ops", {"c": "laplace(c) + gradient_squared(c)"}, {"bc_ops": {"c:laplace": {"value": 1}, "c:gradient_squared": {"derivative": 0.5}}}, "bc_ops"),
    ("two-fields", {"u": "laplace(v) + u * v", "v": "laplace(u) - v"}, {}, None),
    ("two-fields-bc_ops", {"u": "laplace(v)", "v": "laplace(u)"}, {"bc_ops": {"u:laplace": {"value": 1}, "v:laplace": {"derivative": 0.5}}}, "bc_ops2"),
    ("dot-and-gradient", {"c": "dot(gradient(c), gradient(c)) - laplace(c**3)"}, {}, None),
    ("user-function", {"c": "f(c) + laplace(c)"}, {"user_funcs": {"f": "lambda z: 2 * z + 1"}}, None),
]


def scenario_expression(env, cfg):
    import pde

    _prepare(env)
    env.nonlinear()
    env.exact_first_ms = 8000
    name, rhs, kw, special = EXPRS[cfg["index"]]
    kw = dict(kw)
    if "user_funcs" in kw:
        kw["user_funcs"] = {k: eval(v) for k, v in kw["user_funcs"].items()}  # noqa: S307
    grid, geom = X.make_grid(env, dict(GRIDS[cfg["grid"]], geometry="dyadic"))
    bcname = cfg["bc"]
    bc = _with_periodic(grid, BCA[bcname]) if BCA[bcname] is not None else "auto_periodic_neumann"
    dt = object if env.sym else float
    fields = [pde.ScalarField(grid, env.array(v, grid.shape, -2, 2), label=v, dtype=dt) for v in rhs]
    state = fields[0] if len(fields) == 1 else pde.FieldCollection(fields, dtype=dt)
    t = env.real("t", -2, 2)
    x = np.array(state.data, copy=True)
    eq = pde.PDE(dict(rhs), bc=bc, **kw)
    r_np = np.array(eq.evolution_rate(state.copy(), t).data, copy=True)
    r_nb = np.array(pde.PDE(dict(rhs), bc=bc, **kw).make_pde_rhs(state.copy(), backend="numba")(np.array(x, copy=True), t), copy=True)
    r_np2 = np.array(pde.PDE(dict(rhs), bc=bc, **kw).make_pde_rhs(state.copy(), backend="numpy")(np.array(x, copy=True), t), copy=True)
    env.close("numpy-rate=numba-rate", list(r_np.flat), list(r_nb.flat), scale=SC)
    env.close("evolution_rate=make_pde_rhs[numpy]", list(r_np.flat), list(r_np2.flat), scale=SC)
    # independent assembly from the field API for the cases where the meaning is a one-liner
    args = {"t": t}
    c = fields[0]
    want = None
    if name == "time-dependent":
        want = c.laplace(bc, args=args).data * t + O_sin(t) * c.data
    elif name == "constants":
        want = (1 / 3) * c.laplace(bc, args=args).data + 0.7
    elif name == "coordinate-dependent":
        xs = grid.cell_coords[..., 0]
        want = xs * c.laplace(bc, args=args).data + c.data * c.data
    elif special == "bc_ops":
        want = c.laplace(_with_periodic(grid, {"value": 1}), args=args).data + c.apply_operator("gradient_squared", bc=_with_periodic(grid, {"derivative": 0.5}), args=args).data
    elif special == "bc_ops2":
        u, v = fields
        want = np.stack([v.laplace(_with_periodic(grid, {"value": 1}), args=args).data, u.laplace(_with_periodic(grid, {"derivative": 0.5}), args=args).data])
    elif name == "two-fields":
        u, v = fields
        want = np.stack([v.laplace(bc, args=args).data + u.data * v.data, u.laplace(bc, args=args).data - v.data])
    elif name == "user-function":
        want = 2 * c.data + 1 + c.laplace(bc, args=args).data
    if want is not None:
        env.close("rate=assembly-from-field-API", list(np.asarray(r_np).flat), list(np.asarray(want).flat), scale=SC)
    env.observe("rate", r_np)
    env.reach()


def O_sin(t):
    return t.sin() if hasattr(t, "sin") else float(np.sin(t))


def _with_periodic(grid, bc):
    if not any(grid.periodic):
        return bc
    spec = {}
    for a, ax in enumerate(grid.axes):
        spec[ax] = "periodic" if grid.periodic[a] else bc
    return spec


def cases(tier, seed):
    q = tier == "quick"
    out = []
    for cname, ccfg in CLASSES.items():
        nb = len(ccfg["bcs"])
        if nb == 1:
            combos = [(b,) for b in BCA]
        else:
            combos = [("default", "default"), ("value0", "value0"), ("derivative0", "derivative0"), ("derivative0", "value0"), ("value0", "derivative0"), ("derivative0", "value1"), ("value1", "derivative1"), ("derivative0", "derivative1"), ("mixed", "value1"), ("time", "derivative0"), ("derivative0", "time")]
        for pi, params in enumerate(ccfg["params"]):
            for gname in GRIDS:
                for bcs in combos:
                    if q and gname != "cart1" and bcs[0] not in ("default", "value1", "derivative0") :
                        continue
                    out.append({"name": f"class:{cname}:p{pi}:{gname}:{'+'.join(bcs)}", "scenario": "scenario_class", "cfg": {"cls": cname, "params": params, "grid": gname, "bcs": list(bcs)}, "validate_paths": 1 if gname == "cart1" and pi == 1 else 0})
    for i, e in enumerate(EXPRS):
        for gname in ("cart1", "cart2:periodic-x"):
            if (e[0] == "coordinate-dependent" or e[3] is not None) and gname != "cart1":
                continue
            for bcname in ("default", "value1", "time") if e[3] is None else ("default",):
                out.append({"name": f"expression:{e[0]}:{gname}:{bcname}", "scenario": "scenario_expression", "cfg": {"index": i, "grid": gname, "bc": bcname}, "validate_paths": 1 if gname == "cart1" else 0})
    return out


CANARIES = [
    {
        "name": "swift-hohenberg-compiled-rate-nests-the-laplacians",
        "case": "class:SwiftHohenbergPDE:p1:cart1:derivative0+value1",
        "patch": [("pde.pdes.swift_hohenberg:SwiftHohenbergPDE.make_evolution_rate", "state_laplace2 = laplace2(state_laplace, args={\"t\": t})", "state_laplace2 = laplace2(2 * kc2 * state_data + state_laplace, args={\"t\": t}) - 2 * kc2 * state_laplace")],
        "expect": "numba",
    },
    {
        "name": "expr_prod-drops-small-parameters",
        "case": "class:DiffusionPDE:p1:cart1:default",
        "patch": [("pde.pdes.base:expr_prod", "if factor == 0:", "if abs(factor) < 0.5:")],
        "expect": "printed-expression",
    },
]
