"""C20 — in-memory storage returns exactly what was stored, in order.

Bounded histories over the operations of MemoryStorage; the explorer forks on symbolic
operation selectors while field contents and time stamps stay symbolic.  After every operation
the observable state (times, frames read back through every access path, raised errors) is
compared with a list-of-(time, tuple of terms) reference model of the documented semantics.
"""

from __future__ import annotations

import numpy as np

from symx import ops as O

from . import _ops as X
from . import c16_interpolation as I

ID = "C20"
LEVEL = "model_checking"
FUNCTIONS = [
    "pde.storage.memory:MemoryStorage.__init__",
    "pde.storage.memory:MemoryStorage.start_writing",
    "pde.storage.memory:MemoryStorage._append_data",
    "pde.storage.memory:MemoryStorage.clear",
    "pde.storage.memory:MemoryStorage.from_fields",
    "pde.storage.base:StorageBase.append",
    "pde.storage.base:StorageBase.start_writing",
    "pde.storage.base:StorageBase.clear",
    "pde.storage.base:StorageBase._get_field",
    "pde.storage.base:StorageBase.__getitem__",
    "pde.storage.base:StorageBase.items",
    "pde.storage.base:StorageBase.extract_field",
    "pde.storage.base:StorageBase.extract_time_range",
    "pde.storage.base:StorageBase.view_field",
    "pde.storage.base:StorageBase.copy",
    "pde.storage.base:StorageBase.apply",
]
ASSUMPTIONS = [
    "operation alphabet: start_writing, append(field, t) with explicit symbolic time, append(field) with implicit time, end_writing, clear(), clear(clear_data_shape=True), mutate the source field, mutate a field read back; all histories up to the stated length",
    "field contents and explicit time stamps are symbols (every written value is a fresh symbol), so one path covers all contents",
    "reference model (this file): list of (time, terms); start_writing clears in 'truncate' mode and on the first call in 'truncate_once' mode (which then becomes 'append'), raises RuntimeError in 'readonly' mode; append without explicit time uses 0 for an empty storage and last time + 1 otherwise",
    "dtype-dependent behaviour (real storage reused with complex/bool/int fields) is enumerated with concrete numbers",
]
STUBS = I.STUBS
OUTSIDE = ["file storages, movie storages", "histories longer than the bound", "StorageTracker (C08)"]
BOUNDS = {"max_paths": 40000, "tmax": 900.0, "query_timeout_ms": 10000, "max_int_fork": 16}
EXPLANATION = "exhaustive bounded histories (explorer forks on operation selectors), symbolic data and times; observable reads compared with the model after every step"

OPS = ["start_writing", "append_t", "append_auto", "end_writing", "clear", "clear_shape", "mutate_source", "mutate_readback"]


def bounds_text(tier):
    return f"all histories of length {4 if tier == 'quick' else 5} over {len(OPS)} operations x 4 write modes x (ScalarField | FieldCollection)"


class Model:
    def __init__(self, mode):
        self.mode = mode
        self.frames = []  # (time, tuple of terms)
        self.shape_set = False

    def start_writing(self):
        if self.mode == "readonly":
            return RuntimeError
        self.shape_set = True
        if self.mode == "truncate_once":
            self.frames = []
            self.mode = "append"
        elif self.mode == "truncate":
            self.frames = []
        return None

    def append(self, snapshot, t):
        if not self.shape_set:
            return RuntimeError
        if t is None:
            t = 0 if not self.frames else self.frames[-1][0] + 1
        self.frames.append((t, snapshot))
        return None

    def clear(self, shape=False):
        self.frames = []
        if shape:
            self.shape_set = False


def _make_field(env, kind, tag):
    import pde

    grid = pde.UnitGrid([2])
    dt = object if env.sym else float
    if kind == "scalar":
        return pde.ScalarField(grid, env.array(f"{tag}s", (2,), -4, 4), dtype=dt)
    a = pde.ScalarField(grid, env.array(f"{tag}a", (2,), -4, 4), label="a", dtype=dt)
    b = pde.VectorField(grid, env.array(f"{tag}b", (1, 2), -4, 4), label="b", dtype=dt)
    return pde.FieldCollection([a, b], dtype=dt)


def _compare(env, storage, model, tag):
    env.prove(f"{tag}:len", len(storage) == len(model.frames))
    if len(storage) != len(model.frames):
        return False
    if model.frames:
        env.close(f"{tag}:times", list(storage.times), [f[0] for f in model.frames], scale=64)
    for j, (t, snap) in enumerate(model.frames):
        env.same(f"{tag}:frame-data", list(np.asarray(storage.data[j]).flat), list(snap))
        fld = storage[j]
        env.same(f"{tag}:read-back-field", list(fld.data.flat), list(snap))
    for j, (t, fld) in enumerate(storage.items()):
        env.same(f"{tag}:items-field", list(fld.data.flat), list(model.frames[j][1]))
    return True


def scenario_history(env, cfg):
    import pde

    I._prepare(env)
    mode = cfg["mode"]
    kind = cfg["field"]
    L = cfg["L"]
    field = _make_field(env, kind, "f")
    storage = pde.MemoryStorage(write_mode=mode)
    model = Model(mode)
    nfresh = 0
    prefix = cfg.get("prefix", [])
    for k in range(L):
        if k < len(prefix):
            op = prefix[k]
        else:
            sel = env.integer(f"op{k}", 0, len(OPS) - 1)
            op = OPS[int(sel)]
        err = None
        want = None
        try:
            if op == "start_writing":
                want = model.start_writing()
                storage.start_writing(field)
            elif op in ("append_t", "append_auto"):
                t = env.real(f"t{k}", -8, 8) if op == "append_t" else None
                want = model.append(tuple(field.data.flat), t)
                storage.append(field, t)
            elif op == "end_writing":
                storage.end_writing()
            elif op == "clear":
                model.clear()
                storage.clear()
            elif op == "clear_shape":
                model.clear(True)
                storage.clear(clear_data_shape=True)
            elif op == "mutate_source":
                nfresh += 1
                field.data[..., 0] = env.real(f"w{k}", -4, 4)
            elif op == "mutate_readback":
                if len(storage) > 0:
                    fld = storage[len(storage) - 1]
                    fld.data[...] = env.real(f"m{k}", -4, 4)
                    fld2 = storage[0]
                    fld2 += 1
        except (RuntimeError, ValueError) as e:
            err = type(e)
        env.prove(f"step{k}:{op}:error-exactly-when-documented", (err is not None) == (want is not None))
        if (err is not None) != (want is not None):
            return
        if not _compare(env, storage, model, f"step{k}:{op}"):
            return
    # derived views on the final state
    if len(storage) > 0:
        cp = storage.copy()
        env.prove("copy:len", len(cp) == len(model.frames))
        if len(cp) == len(model.frames):
            for j, (t, snap) in enumerate(model.frames):
                env.same("copy:frame", list(cp[j].data.flat), list(snap))
            # copies do not alias
            cp.data[0][...] = 0
            env.same("copy:independent-of-source", list(np.asarray(storage.data[0]).flat), list(model.frames[0][1]))
        if kind == "collection":
            ex = storage.extract_field(1)
            env.prove("extract_field:len", len(ex) == len(model.frames))
            for j, (t, snap) in enumerate(model.frames):
                env.same("extract_field:data", list(ex[j].data.flat), list(snap[2:]))
            exl = storage.extract_field("a")
            for j, (t, snap) in enumerate(model.frames):
                env.same("extract_field-by-label:data", list(exl[j].data.flat), list(snap[:2]))
            vw = storage.view_field(0)
            for j, (t, snap) in enumerate(model.frames):
                env.same("view_field:data", list(vw[j].data.flat), list(snap[:2]))
        ap = storage.apply(lambda f: 2 * f)
        for j, (t, snap) in enumerate(model.frames):
            env.same("apply:data", list(ap[j].data.flat), [2 * x for x in snap])
    env.observe("len", len(storage))


def scenario_time_range(env, cfg):
    """extract_time_range on increasing symbolic times"""
    import pde

    I._prepare(env)
    field = _make_field(env, "scalar", "f")
    storage = pde.MemoryStorage()
    storage.start_writing(field)
    n = cfg["n"]
    ts, snaps = [], []
    for k in range(n):
        t = env.real(f"t{k}", -8, 8)
        if ts:
            env.assume(t > ts[-1])
        ts.append(t)
        field.data[...] = env.real(f"v{k}", -4, 4)
        snaps.append(tuple(field.data.flat))
        storage.append(field, t)
    a = env.real("a", -9, 9)
    b = env.real("b", -9, 9)
    env.assume(a <= b)
    sub = storage.extract_time_range((a, b))
    want = [(t, s) for t, s in zip(ts, snaps) if env.is_true(O.land(t >= a, t <= b))]
    env.prove("time-range:len", len(sub) == len(want))
    if len(sub) == len(want):
        for j, (t, s) in enumerate(want):
            env.close("time-range:time", sub.times[j], t, scale=64)
            env.same("time-range:data", list(sub[j].data.flat), list(s))
    env.reach()


def scenario_dtypes(env, cfg):
    """a storage reused with fields of another dtype keeps their values (enumerated, concrete numbers)"""
    import pde

    grid = pde.UnitGrid([2])
    for mode in ("truncate_once", "truncate", "append"):
        for first, second in ((float, complex), (bool, float), (int, float), (float, int)):
            def mk(dt, k):
                raw = np.array([1.25 + k, -2.5 - k])
                data = raw.astype(dt) if dt is not complex else raw + 1j * raw[::-1]
                return pde.ScalarField(grid, data, dtype=dt)

            st = pde.MemoryStorage(write_mode=mode)
            f1 = mk(first, 0)
            st.start_writing(f1)
            st.append(f1, 0.0)
            st.end_writing()
            for how in ("clear", "clear_shape", "restart"):
                st2 = pde.MemoryStorage(write_mode=mode)
                st2.start_writing(f1)
                st2.append(f1, 0.0)
                st2.end_writing()
                if how == "clear":
                    st2.clear()
                elif how == "clear_shape":
                    st2.clear(clear_data_shape=True)
                f2 = mk(second, 1)
                st2.start_writing(f2)
                st2.append(f2, 1.0)
                got = st2[len(st2) - 1].data
                env.prove(f"{mode}:{np.dtype(first).name}->{np.dtype(second).name}:{how}:values-kept", bool(np.allclose(np.asarray(got, dtype=complex), np.asarray(f2.data, dtype=complex))))


def cases(tier, seed):
    q = tier == "quick"
    L = 4 if q else 5
    out = []
    for mode in ("truncate_once", "truncate", "append", "readonly"):
        for field in ("scalar", "collection"):
            if mode == "readonly":
                out.append({"name": f"history:{mode}:{field}:L=3", "scenario": "scenario_history", "cfg": {"mode": mode, "field": field, "L": 3}, "validate_paths": 1})
                continue
            # split the history tree by its first operation (parallelism)
            for first in OPS[:3] if q else OPS:
                out.append({"name": f"history:{mode}:{field}:first={first}:L={L}", "scenario": "scenario_history", "cfg": {"mode": mode, "field": field, "L": L, "prefix": [first] if first != "start_writing" else ["start_writing"]}, "validate_paths": 1})
            # deeper histories behind the usual opening
            out.append({"name": f"history:{mode}:{field}:start+append:L={L + 1}", "scenario": "scenario_history", "cfg": {"mode": mode, "field": field, "L": L + 1, "prefix": ["start_writing", "append_t"]}, "validate_paths": 1})
    for n in (2, 3):
        out.append({"name": f"time-range:n={n}", "scenario": "scenario_time_range", "cfg": {"n": n}})
    out.append({"name": "dtypes", "scenario": "scenario_dtypes", "cfg": {}, "validate_paths": 0})
    return out


CANARIES = [
    {
        "name": "append-stores-a-view-not-a-copy",
        "case": "history:append:scalar:start+append:L=5",
        "patch": [("pde.storage.memory:MemoryStorage._append_data", "self.data.append(np.array(data))  # store copy of the data", "self.data.append(data)")],
        "expect": "frame-data|read-back",
    },
    {
        "name": "explicit-time-zero-treated-as-missing",
        "case": "history:append:scalar:start+append:L=5",
        "patch": [("pde.storage.base:StorageBase.append", "if time is None:", "if not time:")],
        "expect": "times",
    },
    {
        "name": "truncate_once-never-becomes-append",
        "case": "history:truncate_once:scalar:start+append:L=5",
        "patch": [("pde.storage.memory:MemoryStorage.start_writing", 'self.write_mode = "append"  # do not truncate in subsequent calls', "pass")],
        "expect": "len|times|frame",
    },
]
