"""C08 — trackers fire exactly once per scheduled time, in order, even when stopping."""

from __future__ import annotations

import numpy as np

from symx import ops as O

from . import _controller as H

ID = "C08"
LEVEL = "model_checking"
FUNCTIONS = H.FUNCTIONS + [
    "pde.storage.base:StorageTracker.handle",
    "pde.storage.base:StorageTracker.initialize",
    "pde.storage.memory:MemoryStorage._append_data",
    "pde.storage.memory:MemoryStorage.start_writing",
]
ASSUMPTIONS = [
    "same harness and bounds as C07 (real Controller.run, TrackerCollection, interrupts, fixed steppers; du/dt = a*u + c on one cell)",
    "tie bands: obligations about which side of a time comparison a scheduled time falls on are asserted only when the scheduled time and t_end either coincide with t_final or differ from it by more than 2e-6*dt (the controller compares with its own 1e-6*dt tolerance; inside that band times are 'equal up to round-off' by design)",
    "'served exactly once' is claimed for constant intervals D >= dt without t_start offset, as in the property; for D < dt, fixed and logarithmic schedules only ordering/genuineness/finalisation are claimed",
    "stop requests: a tracker raises StopIteration or FinishedSimulation at its j-th call (j symbolic via enumeration 1..3)",
]
STUBS = H_STUBS = ["float() identity on symbolic reals in pde.solvers.*, pde.trackers.*, pde.backends.numba._solvers", "nb.typeof -> None", "adaptive cases: OnlineStatistics.add (step-size diagnostics) counts only; in the 'any-adjusted-step' cases _make_dt_adjuster is a non-deterministic stub returning any step in [0.01*dt, 4*dt] (its documented bracket; covers one rejection followed by a shrink), at most `attempts` adjustments per run; the rate is constant so the real error estimate is exactly 0 and every step is accepted"]
OUTSIDE = ["adaptive steppers: rejected steps as such (the error estimate is 0 in the harness; their effect on the step size is covered by the adjuster stub), more than 2 trackers", "more than K steps per run", "MPI", "RealtimeInterrupts"]
BOUNDS = {"max_paths": 8000, "tmax": 900.0, "query_timeout_ms": 10000}
CASE_TIMEOUT = 3600
EXPLANATION = "all paths of the real controller/tracker/interrupt code up to K steps; per path the call records of every tracker are compared with the schedule for all dt, ranges and intervals"


def bounds_text(tier):
    return "K (max steps per run) = 3..5; 1-2 trackers (3 in thorough); stop at call 1..3 of one tracker; see per_case"


def _case(name, **cfg):
    return {"name": name, "scenario": "scenario_c08", "cfg": cfg}


def cases(tier, seed):
    q = tier == "quick"
    out = []
    ge1 = {"kind": "const", "min_ratio": 1, "max_ratio": 6}
    any_ = {"kind": "const", "min_ratio": 0.25, "max_ratio": 6}
    for backend in ("numpy", "numba"):
        for rng in ("whole", "any"):
            out.append(_case(f"{backend}:const>=dt:dt=sym:{rng}:K={3 if q else 4}", backend=backend, K=3 if q else 4, range=rng, dt="sym", trackers=[ge1]))
    for rng in ("whole", "any"):
        out.append(_case(f"numpy:const>=dt:dt=1:{rng}:K=5:tstart", backend="numpy", K=5, range=rng, dt=1, a=0.5, trackers=[ge1], t_start="sym"))
        out.append(_case(f"numpy:2const>=dt:dt=1:{rng}:K=3", backend="numpy", K=3, range=rng, dt=1, a=0.5, trackers=[ge1, ge1]))
        out.append(_case(f"numpy:const<dt+const:dt=1:{rng}:K=3", backend="numpy", K=3, range=rng, dt=1, a=0.5, trackers=[any_, ge1]))
        out.append(_case(f"numpy:storage:dt=1:{rng}:K=4", backend="numpy", K=4, range=rng, dt=1, a=0.5, trackers=[ge1], storage=True))
        out.append(_case(f"numpy:fixed2+const:dt=1:{rng}:K=3", backend="numpy", K=3, range=rng, dt=1, a=0.5, trackers=[{"kind": "fixed", "L": 2}, ge1]))
    # one interrupt instance handed to several trackers (adjacent and non-adjacent): every tracker still gets the full schedule
    out.append(_case("numpy:shared-interrupt-instance:[a,b,a]:dt=1:any:K=3", backend="numpy", K=3, range="any", dt=1, a=0.5, trackers=[ge1, ge1, {"share": 0, "min_ratio": 1}]))
    out.append(_case("numpy:shared-interrupt-instance:[a,a,a]:dt=1:whole:K=3", backend="numpy", K=3, range="whole", dt=1, a=0.5, trackers=[ge1, {"share": 0, "min_ratio": 1}, {"share": 0, "min_ratio": 1}]))
    for exc in ("StopIteration", "FinishedSimulation"):
        for j in (1, 2) if q else (1, 2, 3):
            out.append(_case(f"numpy:stop:{exc}:call={j}:2const:dt=1:any:K=3", backend="numpy", K=3, range="any", dt=1, a=0.5, trackers=[any_, any_], stop={"tracker": 0, "at_call": j, "exc": exc, "reason": "why" if j == 2 else None}))
    out.append(_case("numpy:stop:second-tracker:call=2:2const:dt=1:any:K=3", backend="numpy", K=3, range="any", dt=1, a=0.5, trackers=[any_, any_], stop={"tracker": 1, "at_call": 2, "exc": "StopIteration", "reason": None}))
    for backend in ("numpy", "numba"):
        for solver in ("euler", "runge-kutta"):
            out.append({"name": f"adaptive:{backend}:{solver}:real-adjuster:2const", "scenario": "scenario_adaptive", "cfg": {"backend": backend, "solver": solver, "trackers": [{}, {}], "periods": 2 if q else 3, "dt0": 1 if q else "sym"}})
            out.append({"name": f"adaptive:{backend}:{solver}:real-adjuster:1const:dt0=sym", "scenario": "scenario_adaptive", "cfg": {"backend": backend, "solver": solver, "trackers": [{}], "periods": 3 if q else 4, "dt0": "sym"}})
    for backend in ("numpy", "numba"):
        out.append({"name": f"adaptive:{backend}:euler:stop-at-call-2:2const", "scenario": "scenario_adaptive", "cfg": {"backend": backend, "solver": "euler", "trackers": [{}, {}], "periods": 2, "dt0": 1, "stop": {"tracker": 0, "at_call": 2, "exc": "StopIteration", "reason": None}}})
    out.append({"name": "adaptive:numpy:euler:any-adjusted-step:2const", "scenario": "scenario_adaptive", "cfg": {"backend": "numpy", "solver": "euler", "trackers": [{"lo": 0.5, "hi": 2}, {}] if q else [{}, {}], "periods": 1 if q else 2, "adjuster": "stub", "attempts": 4 if q else 5}})
    out.append({"name": "adaptive:numpy:runge-kutta:any-adjusted-step:1const:tstart", "scenario": "scenario_adaptive", "cfg": {"backend": "numpy", "solver": "runge-kutta", "trackers": [{"lo": 0.5, "hi": 2}] if q else [{}], "periods": 2 if q else 3, "adjuster": "stub", "attempts": 4 if q else 5, "t_start": "sym"}})
    if not q:
        for c_ in out:
            if c_["name"].startswith("adaptive:"):
                c_["bounds"] = {"tmax": 3000.0, "max_paths": 30000}
                if "any-adjusted-step" in c_["name"]:
                    # thorough bounds (5 adjustments, 2 trackers): > 14 000 paths; explored up to the time cap, every explored
                    # path is checked, an incomplete exploration is recorded in the evidence (per_case.complete) and not an error
                    c_["optional"] = True
        out.append(_case("numba:2const>=dt:dt=1:whole:K=4", backend="numba", K=4, range="whole", dt=1, a=0.5, trackers=[ge1, ge1]))
        out.append(_case("numpy:3const:dt=1:any:K=3", backend="numpy", K=3, range="any", dt=1, a=0.5, trackers=[ge1, any_, ge1]))
        out.append(_case("numpy:log+const:dt=1:any:K=4", backend="numpy", K=4, range="any", dt=1, a=0.5, trackers=[{"kind": "log", "factor": "sym"}, ge1]))
    return out


def _check_records(env, r, tag=""):
    dt, ts, K = r["dt"], r["ts"], r["K"]
    tscale = dt * K
    for i, tr in enumerate(r["trackers"]):
        recs = tr.records
        for x, y in zip(recs, recs[1:]):
            env.prove(f"{tag}tracker{i}:call-times-strictly-increasing", y[0] - x[0] >= dt * (1 - H.TOL))
        for t, ncalls, data in recs:
            if ncalls is not None and r["solver"] == "euler":
                env.close(f"{tag}tracker{i}:call-time=t_start+n*dt", t, ts + ncalls * dt, scale=tscale)
                env.close(f"{tag}tracker{i}:state-at-call=n-fold-one-step-map", data[0], H.nfold(r, ncalls))
        env.prove(f"{tag}tracker{i}:finalized-exactly-once", tr.finalized == 1)


def scenario_c08(env, cfg):
    if cfg.get("storage"):
        return _scenario_storage(env, cfg)
    r = H.run_controller(env, cfg)
    dt, ts, K = r["dt"], r["ts"], r["K"]
    t_final, t_end, T = r["t_final"], r["t_end"], r["T"]
    for i, tr in enumerate(r["trackers"]):
        env.observe(f"times{i}", [rec[0] for rec in tr.records])
        env.observe(f"nrec{i}", len(tr.records))
    env.observe("t_final", t_final)
    _check_records(env, r)
    stop = cfg.get("stop")
    if stop is None:
        env.prove("stop_reason=Reached-final-time", r["info"].get("stop_reason") == "Reached final time")
        g_end = H.guard_ok(t_end, t_final, dt)
        for i, (tr, par) in enumerate(zip(r["trackers"], r["tparams"])):
            if par["kind"] != "const" or par["t_start"] is not None:
                continue
            spec = cfg["trackers"][i]
            if spec.get("min_ratio", 1) < 1:
                continue
            D = par["D"]
            times = [rec[0] for rec in tr.records]
            sched = [ts + k * D for k in range(0, K + 1)]
            for k, s in enumerate(sched):
                cnt = O.total(O.ite(abs(t - s) <= dt / 2, 1, 0) for t in times) if times else 0
                due = s <= t_end
                g = O.land(g_end, H.guard_ok(s, t_final, dt))
                env.prove(f"tracker{i}:scheduled-time-served-exactly-once:k={k}", O.implies(O.land(due, g), cnt == 1))
            for j, t in enumerate(times):
                env.prove(f"tracker{i}:call-serves-a-scheduled-time-or-is-final:{j}", O.lor(*[abs(t - s) <= dt / 2 for s in sched], abs(t - t_final) <= 0))
            expected = O.total(O.ite(k * D <= T, 1, 0) for k in range(0, K + 1))
            gall = O.land(g_end, *[H.guard_ok(s, t_final, dt) for s in sched])
            if cfg["range"] == "whole":
                env.prove(f"tracker{i}:frames=floor(T/D)+1", O.implies(gall, len(times) == expected))
            else:
                env.prove(f"tracker{i}:frames<=floor(T/D)+2", O.implies(gall, O.land(len(times) >= expected, len(times) <= expected + 1)))
    else:
        _check_stop(env, cfg, r)
    env.homogeneous("time-scale-homogeneity")
    env.reach()


# ----------------------------------------------------------------------------- adaptive steppers


def _adjuster_stub(env, mods, lo, cap):
    """non-deterministic replacement of pde.solvers.base._make_dt_adjuster: the adjusted step is a fresh symbol inside the
    documented bracket [lo*dt, 4*dt] (one rejection and the following shrink are covered by lo = 0.01)"""
    count = [0]

    def make(dt_min, dt_max):
        def adjust_dt(dt, error_rel):
            j = count[0]
            count[0] += 1
            if j >= cap:
                env.assume(False)  # cut: more step attempts than the stated bound
            r = env.real(f"adj{j}")
            env.assume(r >= lo * dt)
            env.assume(r <= 4 * dt)
            env.assume(r >= dt_min)
            env.assume(r <= dt_max)
            return r

        return adjust_dt

    for name in ("pde.solvers.base", "pde.solvers.euler", "pde.backends.numba._solvers"):
        saved = getattr(mods[name], "_make_dt_adjuster")
        setattr(mods[name], "_make_dt_adjuster", make)
    return saved


def scenario_adaptive(env, cfg):
    """adaptive steppers: every scheduled time is served exactly once, *at* it (up to the controller's 1e-6 relative slack)"""
    import importlib

    import pde
    from pde.solvers.controller import Controller

    mods = H.prepare(env.sym)
    dt0 = env.real("dt0", 1 / 8, 8) if cfg.get("dt0", 1) == "sym" else env.fixed("dt0", cfg.get("dt0", 1))
    ts = env.real("tstart", -4, 4) if cfg.get("t_start") == "sym" else 0
    Ds = []
    for i, spec in enumerate(cfg["trackers"]):
        D = env.real(f"D{i}", spec.get("lo", 0.25), spec.get("hi", 4))
        if i > 0:
            env.assume(D >= Ds[0] / 2)
            env.assume(D <= Ds[0] * 2)
        Ds.append(D)
    T = env.real("T", 0, 64)
    env.assume(T > 0)
    env.assume(T <= cfg.get("periods", 3) * Ds[0])
    t_end = ts + T
    u0 = env.real("u0", -8, 8)
    cval = env.fixed("c", 1)
    eq = H.make_pde(0, cval, None)  # constant rate: the scheme's error estimate is exactly 0 (every step accepted)
    saved = None
    if cfg.get("adjuster") == "stub":
        saved = _adjuster_stub(env, mods, cfg.get("lo", 0.01), cfg.get("attempts", 6))
    # diagnostics only (running mean/variance of the step sizes: products of symbolic steps): counting stub
    stats_cls = importlib.import_module("pde.tools.math").OnlineStatistics
    saved_add = stats_cls.add

    def _count_only(self, value):
        self.count += 1

    stats_cls.add = _count_only
    try:
        grid = pde.UnitGrid([1])
        data = np.empty(1, dtype=object if env.sym else float)
        data[0] = u0
        init = pde.ScalarField(grid, data, dtype=object if env.sym else float)
        Recorder = H.make_tracker_class()
        ti = mods["pde.trackers.interrupts"]
        stop = cfg.get("stop")
        trackers = [Recorder(ti.ConstantInterrupts(D), None, stop=stop if (stop and stop["tracker"] == i) else None) for i, D in enumerate(Ds)]
        smod, scls = H.SOLVERS[cfg.get("solver", "euler")]
        solver = getattr(importlib.import_module(smod), scls)(eq, backend=cfg.get("backend", "numpy"), adaptive=True)
        ctrl = Controller(solver, t_range=(ts, t_end), tracker=trackers)
        final = ctrl.run(init, dt=dt0)
    finally:
        stats_cls.add = saved_add
        if saved is not None:
            for name in ("pde.solvers.base", "pde.solvers.euler", "pde.backends.numba._solvers"):
                setattr(mods[name], "_make_dt_adjuster", saved)
    t_final = ctrl.info["t_final"]
    env.observe("t_final", t_final)
    # "exactly": the controller deliberately treats times closer than 1e-6*dt as equal, where dt is the current
    # step estimate (<= 4 * the last step <= 4 * the smallest interval, or the initial dt)
    tol = 1e-5 * (dt0 + O.total(Ds))
    nsched = cfg.get("periods", 3) * 2 + 1
    if cfg.get("stop"):
        # a stop request during an adaptive run: the run ends at the requesting call's time, with everything due then served
        st = trackers[stop["tracker"]]
        stopped = len(st.records) >= stop["at_call"]
        env.observe("stopped", stopped)
        if stopped:
            t_stop = st.records[stop["at_call"] - 1][0]
            env.close("adaptive:stop:t_final=stop-time", t_final, t_stop, scale=64)
            env.close("adaptive:stop:final-state=state-at-stop-time", final.data[0], st.records[stop["at_call"] - 1][2][0], scale=64)
            env.prove("adaptive:stop:reason-reported", ctrl.info.get("stop_reason") == "Tracker raised StopIteration")
            env.prove("adaptive:stop:no-call-after-the-stop", O.land(*[rec[0] <= t_stop for tr in trackers for rec in tr.records]))
        else:
            env.prove("adaptive:no-stop:reached-final-time", ctrl.info.get("stop_reason") == "Reached final time")
    for i, (tr, D) in enumerate(zip(trackers, Ds)):
        times = [rec[0] for rec in tr.records]
        env.observe(f"times{i}", times)
        env.observe(f"nrec{i}", len(times))
        for x, y in zip(times, times[1:]):
            env.prove(f"adaptive:tracker{i}:call-times-strictly-increasing", y > x)
        sched = [ts + k * D for k in range(nsched + 1)]
        for k, sk in enumerate(sched):
            cnt = O.total(O.ite(abs(t - sk) <= tol, 1, 0) for t in times) if times else 0
            # (due = reached: the run may end up to 1e-6*dt before t_end, the controller's "equal up to round-off" band;
            #  that t_final is within the band of t_end is its own obligation below)
            env.prove(f"adaptive:tracker{i}:scheduled-time-served-exactly-once-at-it:k={k}", O.implies(sk <= t_final, cnt == 1))
        for j, t in enumerate(times):
            env.prove(f"adaptive:tracker{i}:call-is-at-a-scheduled-time-or-final:{j}", O.lor(*[abs(t - sk) <= tol for sk in sched], abs(t - t_final) <= 0))
        env.prove(f"adaptive:tracker{i}:finalized-exactly-once", tr.finalized == 1)
    if not (cfg.get("stop") and stopped):
        env.prove("adaptive:t_final-reaches-t_end", O.land(t_final >= t_end - tol, t_final <= t_end + tol))
    env.close("adaptive:final-state=u0+c*(t_final-t_start)", final.data[0], u0 + cval * (t_final - ts), scale=64)
    env.reach()


def _check_stop(env, cfg, r):
    dt, ts, K = r["dt"], r["ts"], r["K"]
    stop = cfg["stop"]
    st = r["trackers"][stop["tracker"]]
    stopped = len(st.records) >= stop["at_call"]
    env.observe("stopped", stopped)
    # reference run: same inputs, nobody stops
    ref = H.run_controller(env, cfg, with_stop=False)
    if not stopped:
        env.prove("no-stop:same-final-time-as-reference", abs(r["t_final"] - ref["t_final"]) <= 0)
        return
    t_stop = st.records[stop["at_call"] - 1][0]
    env.close("stop:t_final=stop-time", r["t_final"], t_stop, scale=dt * K)
    env.close("stop:final-state=state-at-stop-time", r["final"].data, st.records[stop["at_call"] - 1][2])
    n_stop = st.records[stop["at_call"] - 1][1]
    if n_stop is not None:
        env.close("stop:final-state=n-fold-map", r["final"].data[0], H.nfold(r, n_stop))
        env.prove("stop:steps-counter=steps-done", r["steps"] == n_stop)
    for i, (tr, tr_ref) in enumerate(zip(r["trackers"], ref["trackers"])):
        want = [rec for rec in tr_ref.records if env.is_true(rec[0] <= t_stop + H.TOL * dt)]
        env.prove(f"stop:tracker{i}:all-calls-due-up-to-the-stop-time-were-served", len(tr.records) == len(want))
        for x, y in zip(tr.records, want):
            env.close(f"stop:tracker{i}:same-call-times-as-unstopped-run", x[0], y[0], scale=dt * K)
    info = r["info"]
    if stop["exc"] == "FinishedSimulation":
        env.prove("stop:successful-flag", info.get("successful") is True)
        env.prove("stop:reason-reported", info.get("stop_reason") == (stop.get("reason") or "Tracker raised FinishedSimulation"))
    else:
        env.prove("stop:successful-flag", info.get("successful") is False)
        env.prove("stop:reason-reported", info.get("stop_reason") == (stop.get("reason") or "Tracker raised StopIteration"))


def _scenario_storage(env, cfg):
    """real MemoryStorage + StorageTracker as the observer"""
    import pde
    from pde.solvers.controller import Controller

    mods = H.prepare(env.sym)
    K = cfg["K"]
    dt = env.fixed("dt", cfg["dt"], dim=1) if cfg.get("dt", "sym") != "sym" else env.real("dt", 1 / 64, 64, dim=1)
    ts = 0
    if cfg["range"] == "whole":
        N = env.integer("N", 1, K)
        T = N * dt
    else:
        T = env.real("T", dim=1)
        env.assume(T > 0)
        env.assume(T <= K * dt)
    t_end = ts + T
    u0 = env.real("u0", -8, 8, dim=0)
    c = env.real("c", -8, 8, dim=-1)
    a = env.fixed("a", cfg.get("a", 0), dim=-1)
    calls = []
    eq = H.make_pde(a, c, calls)
    grid = pde.UnitGrid([1])
    data = np.empty(1, dtype=object if env.sym else float)
    data[0] = u0
    init = pde.ScalarField(grid, data, dtype=object if env.sym else float)
    intr, par = H.make_interrupt(env, mods, cfg["trackers"][0], 0, dt)
    storage = pde.MemoryStorage()
    solver = pde.EulerSolver(eq, backend=cfg.get("backend", "numpy"))
    ctrl = Controller(solver, t_range=(ts, t_end), tracker=[storage.tracker(intr)])
    final = ctrl.run(init, dt=dt)
    t_final = ctrl.info["t_final"]
    times = list(storage.times)
    env.observe("times", times)
    env.observe("nframes", len(times))
    r = {"u0": u0, "dt": dt, "a": a, "c": c, "solver": "euler"}
    D = par["D"]
    sched = [ts + k * D for k in range(0, K + 1)]
    g_end = H.guard_ok(t_end, t_final, dt)
    gall = O.land(g_end, *[H.guard_ok(s, t_final, dt) for s in sched])
    expected = O.total(O.ite(k * D <= T, 1, 0) for k in range(0, K + 1))
    if cfg["range"] == "whole":
        env.prove("storage:frames=floor(T/D)+1", O.implies(gall, len(times) == expected))
    else:
        env.prove("storage:frames<=floor(T/D)+2", O.implies(gall, O.land(len(times) >= expected, len(times) <= expected + 1)))
    for x, y in zip(times, times[1:]):
        env.prove("storage:times-strictly-increasing", y - x >= dt * (1 - H.TOL))
    for j, t in enumerate(times):
        # stored frame = state of that time: the time is t_start + n*dt for an integer n and the data the n-fold map
        q = (t - ts) / dt
        env.prove(f"storage:time-on-step-lattice:{j}", O.is_int(q))
        n = int(round(q))
        env.close(f"storage:frame-data=n-fold-map:{j}", storage.data[j][0], H.nfold(r, n))
    env.close("storage:final-state", final.data[0], H.nfold(r, int(solver.info["steps"])))
    env.homogeneous("time-scale-homogeneity")
    env.reach()


CANARIES = [
    {
        "name": "due-test-uses->=",
        "case": "numpy:const>=dt:dt=1:any:K=5:tstart",
        "patch": [("pde.trackers.base:TrackerCollection.handle", "if t > t_next - atol:", "if t > t_next + atol:")],
        "expect": "served-exactly-once|frames|serves",
    },
    {
        "name": "stop-skips-remaining-trackers",
        "case": "numpy:stop:StopIteration:call=1:2const:dt=1:any:K=3",
        "patch": [("pde.trackers.base:TrackerCollection.handle", "stop_iteration_err = err", "raise")],
        "expect": "all-calls-due|same-call-times",
    },
    {
        "name": "final-handle-uses-tracker-atol",
        "case": "numpy:storage:dt=1:any:K=4",
        "patch": [("pde.solvers.controller:Controller._run_main_process", "self.trackers.handle(state, t, atol=stepper_atol)", "self.trackers.handle(state, t, atol=tracker_atol)")],
        "expect": "frames",
    },
    {
        "name": "adaptive-run-uses-half-step-tracker-tolerance",
        "case": "adaptive:numpy:euler:real-adjuster:2const",
        "patch": [("pde.solvers.controller:Controller._run_main_process", "tracker_atol = stepper_atol if adaptive else 0.5 * dt", "tracker_atol = 0.5 * dt")],
        "expect": "adaptive:.*(served-exactly-once|scheduled-time-or-final)",
    },
    {
        "name": "shared-interrupt-only-unshared-from-the-previous-tracker",
        "case": "numpy:shared-interrupt-instance:[a,b,a]:dt=1:any:K=3",
        "patch": [("pde.trackers.base:TrackerCollection.from_data", "if id(tracker_obj.interrupt) in interrupt_ids:", "if trackers and tracker_obj.interrupt is trackers[-1].interrupt:")],
        "expect": "served-exactly-once|frames|serves|increasing",
    },
    {
        "name": "stop-reason-dropped",
        "case": "numpy:stop:FinishedSimulation:call=1:2const:dt=1:any:K=3",
        "patch": [("pde.solvers.controller:Controller._get_stop_handler", 'self.info["stop_reason"] = "Tracker raised FinishedSimulation"', "pass")],
        "expect": "reason",
    },
]
