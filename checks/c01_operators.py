"""C01 — differential operators are second-order consistent discretisations.

Every operator factory registered for a grid class (read from the backend registries at run
time) is executed on grids whose geometry (origins, spacings, inner radius) is *symbolic*,
built by the real grid constructors.  The input is a sampled monomial test field, the oracle is
the continuum operator applied to that monomial in the grid's coordinate system (closed form,
checks/_ops.py).  z3 decides, for all spacings 0 < h <= 1/2 and all admissible origins/radii,
that the deviation is at most C*h^2 (C*h for one-sided variants) in every cell.
"""

from __future__ import annotations

import inspect
import itertools

import numpy as np

from symx import ops as O

from . import _ops as X
from ._ops import P

ID = "C01"
LEVEL = "model_checking"
FUNCTIONS = [
    "pde.backends.numba.operators.cartesian:make_laplace",
    "pde.backends.numba.operators.cartesian:make_gradient",
    "pde.backends.numba.operators.cartesian:make_gradient_squared",
    "pde.backends.numba.operators.cartesian:make_divergence",
    "pde.backends.numba.operators.cartesian:make_vector_gradient",
    "pde.backends.numba.operators.cartesian:make_vector_laplace",
    "pde.backends.numba.operators.cartesian:make_tensor_divergence",
    "pde.backends.numba.operators.common:make_derivative",
    "pde.backends.numba.operators.common:make_derivative2",
    "pde.backends.numba.operators.polar_sym:make_laplace",
    "pde.backends.numba.operators.polar_sym:make_gradient",
    "pde.backends.numba.operators.polar_sym:make_gradient_squared",
    "pde.backends.numba.operators.polar_sym:make_divergence",
    "pde.backends.numba.operators.polar_sym:make_vector_gradient",
    "pde.backends.numba.operators.polar_sym:make_tensor_divergence",
    "pde.backends.numba.operators.spherical_sym:make_laplace",
    "pde.backends.numba.operators.spherical_sym:make_gradient",
    "pde.backends.numba.operators.spherical_sym:make_gradient_squared",
    "pde.backends.numba.operators.spherical_sym:make_divergence",
    "pde.backends.numba.operators.spherical_sym:make_vector_gradient",
    "pde.backends.numba.operators.spherical_sym:make_tensor_divergence",
    "pde.backends.numba.operators.spherical_sym:make_tensor_double_divergence",
    "pde.backends.numba.operators.cylindrical_sym:make_laplace",
    "pde.backends.numba.operators.cylindrical_sym:make_gradient",
    "pde.backends.numba.operators.cylindrical_sym:make_gradient_squared",
    "pde.backends.numba.operators.cylindrical_sym:make_divergence",
    "pde.backends.numba.operators.cylindrical_sym:make_vector_gradient",
    "pde.backends.numba.operators.cylindrical_sym:make_vector_laplace",
    "pde.backends.numba.operators.cylindrical_sym:make_tensor_divergence",
    "pde.backends.scipy.operators.cartesian:make_laplace",
    "pde.backends.scipy.operators.cartesian:make_gradient",
    "pde.backends.scipy.operators.cartesian:make_divergence",
    "pde.backends.scipy.operators.cartesian:make_vector_gradient",
    "pde.backends.scipy.operators.cartesian:make_vector_laplace",
    "pde.backends.scipy.operators.cartesian:make_tensor_divergence",
    "pde.backends.numba.backend:NumbaBackend.get_operator_info",
    "pde.grids.cartesian:CartesianGrid.__init__",
    "pde.grids.spherical:SphericalSymGridBase.__init__",
    "pde.grids.cylindrical:CylindricalSymGrid.__init__",
]
ASSUMPTIONS = [
    "geometry symbolic through the real constructors: spacings 1/64 <= h <= 1/2 per axis (independent, hence anisotropic), origins in [-2, 2], inner radius in [1, 3] for grids with a hole ('fixed distance from r = 0') and 0 otherwise",
    "test fields: every component x every monomial of total degree <= 3 (<= 2 for one-sided variants) in the grid coordinates; for grids without hole only monomials with the parity of a smooth symmetric field (even for scalars/axial, odd for radial/azimuthal components), which makes the ghost value at r = -h/2 the correct reflection",
    "obligation per cell: |operator(samples) - continuum operator| <= 16*sum(h_a^2) + 1e-9 (central) or 16*sum(h_a) + 1e-9 (forward/backward; the 1e-9 absorbs the double rounding of constants such as 1 - 1/3 amplified by 1/h^2); exactness to that order on monomials of degree <= 3 plus the Taylor remainder gives the stated rate for smooth fields (textbook argument, trusted)",
    "spherical vector/tensor operators are checked on the inputs their documented 'safe' preconditions admit (purely radial vectors, theta-theta = phi-phi, ...)",
    "gradient_squared (non-linear) is checked on a generic quadratic polynomial with symbolic coefficients",
]
STUBS = [
    "np.array(bounds, dtype=double) / np.asarray inside pde.grids.cartesian, pde.tools.cuboid, pde.grids.spherical, pde.grids.cylindrical: identity on symbolic reals",
    "Cuboid.size setter: negative-size flipping skipped (sizes assumed positive)",
    "np.isclose inside grid constructors / conservative operator factories: |a-b| <= atol + rtol*|b| as a branch",
    "scipy.ndimage.correlate1d / laplace: documented stencil in Python for object arrays (only interior points are read by the callers)",
]
OUTSIDE = ["shapes beyond 3 cells per axis (kernels are uniform loops)", "numba lowering (tied in by encoding validation and replays on the JIT build)", "spectral Laplacians (rocket-fft), jax/torch backends", "9-point Laplacian (corner_weight != 0) is only covered on isotropic dyadic grids in the stencil scenario"]
BOUNDS = {"max_paths": 50, "tmax": 240.0, "query_timeout_ms": 10000, "path_timeout": 300.0}
CASE_TIMEOUT = 600
EXPLANATION = "per operator/grid/option: symbolic-geometry execution of the real factory and kernel; NRA validity queries |discrete - continuum| <= C h^p per test monomial"

C_ERR = 16


def bounds_text(tier):
    return "grid shapes (3,), (2,3) [quick] / (3,3), (2,2,2) Cartesian; (3,) polar/spherical; (3,2) cylindrical; monomial degree <= 3"


KINDS = {"cart": "CartesianGrid", "polar": "PolarSymGrid", "sph": "SphericalSymGrid", "cyl": "CylindricalSymGrid"}


def _registry(backend_name):
    """{kind: {op name: OperatorInfo}} from the live registry of the backend class (incl. parents)"""
    import pde
    from pde.backends import get_backend

    b = get_backend(backend_name)
    out = {}
    for kind, clsname in KINDS.items():
        gcls = getattr(pde, clsname)
        ops = {}
        for bcls in inspect.getmro(type(b))[:-1]:
            for gc, d in getattr(bcls, "_operators", {}).items():
                if gc is gcls or issubclass(gcls, gc):
                    for k, v in d.items():
                        ops.setdefault(k, v)
        out[kind] = ops
    return out


def _option_variants(info, op):
    """documented options of a factory, from its signature"""
    fac = info.factory
    try:
        params = inspect.signature(fac).parameters
    except (TypeError, ValueError):
        params = {}
    names = set(params)
    has_kwargs = any(p.kind == inspect.Parameter.VAR_KEYWORD for p in params.values())
    axes = []
    if "method" in names or (has_kwargs and op in ("vector_gradient", "tensor_divergence")):
        axes.append([("method", m) for m in ("central", "forward", "backward")])
    if "central" in names:
        axes.append([("central", True), ("central", False)])
    if "conservative" in names:
        axes.append([("conservative", True), ("conservative", False)])
    if not axes:
        return [{}]
    return [dict(c) for c in itertools.product(*axes)]


def cases(tier, seed):
    import os

    os.environ.setdefault("NUMBA_DISABLE_JIT", "1")
    q = tier == "quick"
    out = []
    grids = [
        ("cart1", {"kind": "cart", "shape": (3,)}),
        ("cart2", {"kind": "cart", "shape": (2, 3)}),
        ("cart3", {"kind": "cart", "shape": (2, 2, 2)}),
        ("polar:hole", {"kind": "polar", "shape": (3,), "hole": True}),
        ("polar:nohole", {"kind": "polar", "shape": (3,), "hole": False}),
        ("sph:hole", {"kind": "sph", "shape": (3,), "hole": True}),
        ("sph:nohole", {"kind": "sph", "shape": (3,), "hole": False}),
        ("cyl:hole", {"kind": "cyl", "shape": (3, 2), "hole": True}),
        ("cyl:nohole", {"kind": "cyl", "shape": (2, 2), "hole": False}),
    ]
    if not q:
        grids.append(("cart2:periodic", {"kind": "cart", "shape": (3, 3), "periodic": (True, False)}))
        grids.append(("cyl:hole:periodic_z", {"kind": "cyl", "shape": (2, 3), "hole": True, "periodic_z": True}))
    for backend in ("numba", "scipy"):
        reg = _registry(backend)
        for gname, spec in grids:
            kind = spec["kind"]
            for op, info in sorted(reg.get(kind, {}).items()):
                if op == "poisson_solver":
                    continue
                if op not in X.RANKS:
                    # a newly registered operator without oracle must not be skipped silently
                    out.append({"name": f"{backend}:{gname}:{op}:NO-ORACLE", "scenario": "scenario_no_oracle", "cfg": {"op": op}})
                    continue
                for opts in _option_variants(info, op):
                    oname = ",".join(f"{k}={v}" for k, v in opts.items()) or "default"
                    w = 3 if gname == "cart3" else 1
                    if opts.get("method") in ("forward", "backward") and kind != "cart" and not spec.get("hole"):
                        continue  # one-sided variants are only claimed away from r = 0
                    gspec = dict(spec, geometry="sym", hmin=1 / 64, hmax=0.5)
                    if backend == "scipy" and op in ("laplace", "vector_laplace"):
                        gspec["isotropic"] = True  # documented: scipy Laplacians support uniform discretisations only
                    out.append({"name": f"{backend}:{gname}:{op}:{oname}", "scenario": "scenario_consistency", "weight": w, "cfg": {"backend": backend, "grid": gspec, "op": op, "opts": opts}})
            if backend == "numba":
                naxes = len(spec["shape"])
                for a in range(naxes):
                    for variant in ("", "_forward", "_backward", "2"):
                        if variant in ("_forward", "_backward") and kind != "cart" and not spec.get("hole"):
                            continue
                        out.append({"name": f"numba:{gname}:derivative{variant}:axis{a}", "scenario": "scenario_consistency", "cfg": {"backend": "numba", "grid": dict(spec, geometry="sym", hmin=1 / 64, hmax=0.5), "op": "AXIS", "axis": a, "variant": variant, "opts": {}}})
    # 9-point Laplacian on isotropic grids and complex linearity (concrete dyadic geometry, symbolic field)
    for w in (1 / 3, 0.5):
        out.append({"name": f"numba:cart2:laplace:corner_weight={w:.3g}:isotropic", "scenario": "scenario_ninepoint", "cfg": {"w": w, "periodic": (False, False)}})
    out.append({"name": "numba:cart2:laplace:corner_weight=0.333:isotropic:periodic-x", "scenario": "scenario_ninepoint", "cfg": {"w": 1 / 3, "periodic": (True, False)}})
    out.append({"name": "numba:cart2:laplace:corner_weight=0.333:isotropic:periodic-y", "scenario": "scenario_ninepoint", "cfg": {"w": 1 / 3, "periodic": (False, True)}})
    for gname, spec in grids[:3] + grids[3:9:2]:
        out.append({"name": f"numba:{gname}:complex-linearity", "scenario": "scenario_complex", "cfg": {"grid": dict(spec, geometry="dyadic")}})
    return out


def scenario_no_oracle(env, cfg):
    env.prove(f"operator-{cfg['op']}-has-an-oracle", False)


def _parity_ok(kind, hole, rank_in, cidx, exps, isotropic_family=False):
    """without hole: only test fields that are smooth at r = 0.

    scalars / axial components: even powers of r; radial / azimuthal vector components: odd powers;
    rank-2 tensors: either isotropic in the symmetric directions with even powers, or a single
    component that vanishes at least quadratically at the axis (even power >= 2).
    """
    if kind == "cart" or hole:
        return True
    k = exps[0]  # power of r
    odd_axes = {"polar": (0, 1), "sph": (0, 1, 2), "cyl": (0, 2)}[kind]
    n_odd = sum(1 for c in cidx if c in odd_axes)
    if (k % 2) != (n_odd % 2):
        return False
    if rank_in == 2 and n_odd > 0 and not isotropic_family:
        return k >= 2
    return True


def _test_fields(kind, op, rank_in, ncomp, nvar, maxdeg, hole, opts):
    """yield (label, comps) basis test fields admitted by the operator's documented preconditions"""
    monos = X.monomials(nvar, maxdeg)
    Z = P.zero(nvar)

    def nested(assign):
        if rank_in == 0:
            return assign[()]
        if rank_in == 1:
            return [assign.get((a,), Z) for a in range(ncomp)]
        return [[assign.get((a, b), Z) for b in range(ncomp)] for a in range(ncomp)]

    if kind == "sph" and rank_in == 1:
        families = [{(0,): 1}]
    elif kind == "sph" and rank_in == 2:
        if op == "tensor_double_divergence":
            families = [{(0, 0): 1}, {(1, 1): 1, (2, 2): 1}, {(0, 1): 1, (1, 0): -1}]
        elif opts.get("conservative"):
            families = [{(0, 0): 1}, {(1, 1): 1, (2, 2): 1}, {(1, 2): 1, (2, 1): -1}]
        else:
            families = [{(0, 0): 1}, {(1, 1): 1, (2, 2): 1}, {(1, 0): 1}, {(2, 0): 1}, {(0, 2): 1}, {(1, 2): 1, (2, 1): -1}]
    else:
        families = [{c: 1} for c in itertools.product(range(ncomp), repeat=rank_in)]
    iso = {}
    if rank_in == 2 and kind != "cart" and not hole:
        # isotropic part in the curved directions: smooth at the axis for even powers including r^0
        iso = {(c, c): 1 for c in {"polar": (0, 1), "sph": (0, 1, 2), "cyl": (0, 2)}[kind]}
        families = [iso] + families
    for fam in families:
        for e in monos:
            first = next(iter(fam))
            if fam is not iso and kind == "sph" and rank_in == 2 and not hole and len(fam) > 1 and first[0] == first[1]:
                # theta-theta = phi-phi alone is not smooth at the origin unless it vanishes there
                if e[0] < 2:
                    continue
            if not _parity_ok(kind, hole, rank_in, first, e, isotropic_family=fam is iso):
                continue
            m = P.mono(nvar, e)
            yield f"{'+'.join(''.join(map(str, c)) or 's' for c in fam)}:x^{''.join(map(str, e))}", nested({c: m * s for c, s in fam.items()})


def _get_operator(grid, backend, op, opts, cfg):
    from pde.backends import get_backend

    if op == "AXIS":
        name = {"": "d_d{}", "_forward": "d_d{}_forward", "_backward": "d_d{}_backward", "2": "d2_d{}2"}[cfg["variant"]].format(grid.axes[cfg["axis"]])
        return grid.make_operator_no_bc(name, backend="numba"), name
    return grid.make_operator_no_bc(op, backend=backend, **opts), op


def _one_sided_correction(op, comps, nvar, a, cfg):
    """second-derivative part of the one-sided difference quotient along axis a (Cartesian first-order operators)"""
    zero = P.zero(nvar)
    dd = lambda p: p.d(a).d(a)  # noqa: E731
    if op == "AXIS":
        return dd(comps) if a == cfg["axis"] else None
    if op == "gradient":
        return [dd(comps) if b == a else zero for b in range(nvar)]
    if op == "divergence":
        return dd(comps[a])
    if op == "vector_gradient":
        return [[dd(comps[al]) if be == a else zero for be in range(nvar)] for al in range(nvar)]
    if op == "tensor_divergence":
        return [dd(comps[al][a]) for al in range(nvar)]
    return None


def scenario_consistency(env, cfg):
    spec = cfg["grid"]
    kind = spec["kind"]
    grid, geom = X.make_grid(env, spec)
    shape = tuple(spec["shape"])
    op, opts = cfg["op"], cfg["opts"]
    operator, opname = _get_operator(grid, cfg["backend"], op, opts, cfg)
    if op == "AXIS":
        rank_in, rank_out = 0, 0
    else:
        rank_in, rank_out = X.RANKS[op]
    ncomp = grid.dim
    nvar = len(shape)
    one_sided = opts.get("method") in ("forward", "backward") or (op == "AXIS" and cfg["variant"] in ("_forward", "_backward"))
    maxdeg = 2 if one_sided else 3
    hs = geom["h"]
    bound = C_ERR * (O.total(hs) if one_sided else O.total(h * h for h in hs)) + 1e-9
    # documented exception: the cylindrical vector Laplacian is first order in the cells adjoining the axis
    axis_exception = kind == "cyl" and op == "vector_laplace" and not spec.get("hole")
    pos = X.full_positions(geom, shape)
    env.exact_first_ms = 0
    env.nonlinear()
    if op == "gradient_squared":
        _gradient_squared(env, cfg, grid, geom, operator, pos, shape, kind, bound, spec)
        env.reach()
        return
    n = 0
    for label, comps in _test_fields(kind, op, rank_in, ncomp, nvar, maxdeg, bool(spec.get("hole")), opts):
        arr = X.as_dtype(X.sample_field(comps, rank_in, pos, shape, ncomp), env.sym)
        out = np.empty((ncomp,) * rank_out + shape, dtype=object if env.sym else float)
        operator(arr, out)
        if op == "AXIS":
            a = cfg["axis"]
            exact_p = comps.d(a).d(a) if cfg["variant"] == "2" else comps.d(a)
        else:
            exact_p = X.continuum(kind, op, comps, len(shape))
        exact = X.eval_field(exact_p, rank_out, pos, shape, ncomp)
        claims = []
        for idx in np.ndindex(*out.shape):
            b = bound
            if axis_exception:
                # error term h^2 f'''/(6 r): first order wherever r = O(h), i.e. in all cells of this small grid
                b = C_ERR * O.total(hs) + 1e-9
            claims.append(abs(out[idx] - exact[idx]) <= b)
        env.prove(f"consistent:{label}", O.land(*claims))
        if one_sided and kind == "cart":
            # the documented one-sided stencil, exactly: (u[i+1]-u[i])/h = u' + (h/2) u'' on polynomials of degree <= 2
            # (a first-order bound alone would also be met by the central stencil)
            sign = 1 if (opts.get("method") == "forward" or (op == "AXIS" and cfg["variant"] == "_forward")) else -1
            expect = X.as_dtype(exact, env.sym)
            for a in range(nvar):
                corr_p = _one_sided_correction(op, comps, nvar, a, cfg)
                if corr_p is None:
                    continue
                corr = X.eval_field(corr_p, rank_out, pos, shape, ncomp)
                expect = expect + X.as_dtype(corr, env.sym) * (sign * hs[a] / 2)
            env.close(f"one-sided-stencil-exact:{label}", list(out.flat), list(expect.flat), scale=4096)
        if n < 2:
            env.observe(f"out:{label}", out)
        n += 1
    env.prove("at-least-one-test-field", n > 0)
    env.reach(hints=[{"dx0": 0.25, "dx1": 0.5, "dx2": 0.125, "dr": 0.25, "dz": 0.5, "rin": 2, "x0_0": 0, "x0_1": 1, "x0_2": -1, "z0": 0}])


def _gradient_squared(env, cfg, grid, geom, operator, pos, shape, kind, bound, spec):
    """non-linear operator: generic quadratic test polynomials with fixed rational coefficient vectors"""
    nvar = len(shape)
    monos = [e for e in X.monomials(nvar, 2) if _parity_ok(kind, bool(spec.get("hole")), 0, (), e)]
    polys = [P.mono(nvar, e) for e in monos]
    vectors = [[(-1) ** i * (i + 1) / 4 for i in range(len(monos))], [1 / (i + 1) for i in range(len(monos))], [1 if i == j else 0 for i in range(len(monos))] if False else [((i * 7) % 5 - 2) / 2 for i in range(len(monos))]]
    for k, coef in enumerate(vectors):
        f = P.zero(nvar)
        for c, p in zip(coef, polys):
            f = f + p * X.F(c)
        arr = X.as_dtype(X.sample_field(f, 0, pos, shape, 1), env.sym)
        out = np.empty(shape, dtype=object if env.sym else float)
        operator(arr, out)
        exact = None
        for a in range(nvar):
            g = X.as_dtype(X.eval_field(f.d(a), 0, pos, shape, 1), env.sym)
            exact = g * g if exact is None else exact + g * g
        claims = [abs(out[idx] - exact[idx]) <= bound * 4 for idx in np.ndindex(*out.shape)]
        env.prove(f"gradient_squared:consistent-on-quadratic:{k}", O.land(*claims))
        if k == 0:
            env.observe("out", out)


def scenario_ninepoint(env, cfg):
    """9-point Laplacian (documented for isotropic grids): second-order consistent as well"""
    import pde

    X.prepare(env.sym)
    h = env.real("h", 1 / 64, 0.5)
    x0, y0 = env.real("x0", -2, 2), env.real("y0", -2, 2)
    shape = (3, 3)
    grid = pde.CartesianGrid([[x0, x0 + 3 * h], [y0, y0 + 3 * h]], list(shape), periodic=list(cfg["periodic"]))
    geom = {"x0": [x0, y0], "h": [h, h]}
    pos = X.full_positions(geom, shape)
    operator = grid.make_operator_no_bc("laplace", backend="numba", corner_weight=cfg["w"])
    # the 9-point kernel fills the corner ghost cells itself; for a periodic axis it copies from the
    # opposite side, so only fields that are periodic along that axis are admissible there
    for e in X.monomials(2, 3):
        if (cfg["periodic"][0] and e[0] > 0) or (cfg["periodic"][1] and e[1] > 0):
            continue
        p = P.mono(2, e)
        arr = X.as_dtype(X.sample_field(p, 0, pos, shape, 1), env.sym)
        out = np.empty(shape, dtype=object if env.sym else float)
        operator(arr, out)
        exact = X.eval_field(p.d(0).d(0) + p.d(1).d(1), 0, pos, shape, 1)
        # corner ghost cells are interpolated by the kernel: exact only for the interior cell (1,1)
        cells = [(1, 1)] if not any(cfg["periodic"]) else ([(i, 1) for i in range(3)] if cfg["periodic"][0] else [(1, j) for j in range(3)])
        env.prove(f"9-point:consistent:x^{e[0]}y^{e[1]}", O.land(*[abs(out[c] - exact[c]) <= C_ERR * 2 * h * h + 1e-9 for c in cells]))
    env.reach(hints=[{"h": 0.25, "x0": 0, "y0": 0}])


def scenario_complex(env, cfg):
    """operators are real-linear: a complex field is processed as the pair (real part, imaginary part)"""
    spec = cfg["grid"]
    grid, geom = X.make_grid(env, spec)
    shape = tuple(spec["shape"])
    kind = spec["kind"]
    from pde.backends import get_backend

    reg = _registry("numba")[kind]
    for op in sorted(reg):
        if op not in X.RANKS or op == "gradient_squared":
            continue
        if kind == "sph" and X.RANKS[op][0] > 0:
            continue  # 'safe' preconditions: covered by the consistency scenario
        rank_in, rank_out = X.RANKS[op]
        ncomp = grid.dim
        full = (ncomp,) * rank_in + tuple(n + 2 for n in shape)
        re = env.array(f"re_{op}", full, -4, 4)
        im = env.array(f"im_{op}", full, -4, 4)
        operator = grid.make_operator_no_bc(op, backend="numba")
        oshape = (ncomp,) * rank_out + shape
        if env.sym:
            z = np.empty(full, dtype=object)
            for idx in np.ndindex(*full):
                z[idx] = X.SymComplex(re[idx], im[idx])
            out_z = np.empty(oshape, dtype=object)
            o_re, o_im = np.empty(oshape, dtype=object), np.empty(oshape, dtype=object)
        else:
            z = re + 1j * im
            out_z = np.empty(oshape, dtype=complex)
            o_re, o_im = np.empty(oshape), np.empty(oshape)
        operator(z, out_z)
        operator(re, o_re)
        operator(im, o_im)
        if env.sym:
            env.close(f"complex:{op}:real-part", [x.real if hasattr(x, "real") else x for x in out_z.flat], list(o_re.flat), scale=4096)
            env.close(f"complex:{op}:imag-part", [x.imag if hasattr(x, "imag") else 0 for x in out_z.flat], list(o_im.flat), scale=4096)
        else:
            env.close(f"complex:{op}:real-part", out_z.real, o_re, scale=4096)
            env.close(f"complex:{op}:imag-part", out_z.imag, o_im, scale=4096)
    env.reach()


CANARIES = [
    {
        "name": "cart3-backward-divergence-wrong-scale",
        "case": "numba:cart3:divergence:method=backward",
        "patch": [("pde.backends.numba.operators.cartesian:_make_divergence_numba_3d", "d_z = (arr[2, i, j, k] - arr[2, i, j, k - 1]) * scale_z", "d_z = (arr[2, i, j, k] - arr[2, i, j, k - 1]) * scale_y")],
        "expect": "consistent",
    },
    {
        "name": "cyl-tensor-divergence-transposed-component",
        "case": "numba:cyl:hole:tensor_divergence:default",
        "patch": [("pde.backends.numba.operators.cylindrical_sym:make_tensor_divergence", "(arr_rz[i, j + 1] - arr_rz[i, j - 1]) * scale_z", "(arr_zr[i, j + 1] - arr_zr[i, j - 1]) * scale_z")],
        "expect": "consistent",
    },
    {
        "name": "spherical-conservative-laplace-face-factor",
        "case": "numba:sph:hole:laplace:conservative=True",
        "patch": [("pde.backends.numba.operators.spherical_sym:make_laplace", "factor_l = rl**2 / (dr * volumes)", "factor_l = rs**2 / (dr * volumes)")],
        "expect": "consistent",
    },
    {
        "name": "polar-laplace-first-derivative-factor",
        "case": "numba:polar:nohole:laplace:default",
        "patch": [("pde.backends.numba.operators.polar_sym:make_laplace", "factor_r = 1 / (2 * grid.axes_coords[0] * dr)", "factor_r = 1 / (grid.axes_coords[0] * dr)")],
        "expect": "consistent",
    },
]
