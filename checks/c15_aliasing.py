"""C15 — field objects share or isolate memory exactly as documented.

Bounded histories over field/collection operations.  Every array starts with distinct symbols and
every write is a fresh symbol; a reference heap model (handle -> array of cell ids, one rule per
operation) predicts which term every handle must read.  After each step the terms read through the
real objects are compared with the model for every handle, and ``np.shares_memory`` with the model's
sharing relation.
"""

from __future__ import annotations

import itertools

import numpy as np

from symx import ops as O

from . import _ops as X
from . import c16_interpolation as I

ID = "C15"
LEVEL = "model_checking"
FUNCTIONS = [
    "pde.fields.base:FieldBase.data",
    "pde.fields.base:FieldBase._data_flat",
    "pde.fields.base:FieldBase._binary_operation",
    "pde.fields.base:FieldBase._binary_operation_inplace",
    "pde.fields.datafield_base:DataFieldBase.__init__",
    "pde.fields.datafield_base:DataFieldBase.copy",
    "pde.fields.collection:FieldCollection.__init__",
    "pde.fields.collection:FieldCollection.__getitem__",
    "pde.fields.collection:FieldCollection.copy",
    "pde.fields.collection:FieldCollection.append",
    "pde.fields.vectorial:VectorField.__getitem__",
    "pde.fields.tensorial:Tensor2Field.__getitem__",
    "pde.fields.tensorial:Tensor2Field.transpose",
    "pde.fields.datafield_base:DataFieldBase.apply_operator",
]
ASSUMPTIONS = [
    "handles: a scalar field s, a vector field v, component views of v, a collection c = FieldCollection([s, v]) (members re-linked), copies, slices, append results, arithmetic results, operator results, a rank-2 tensor with component views and in-place transpose",
    "operation alphabet (quick): write-through-handle, field.data = array, in-place add, binary add, copy, collection slice, append, component view; all histories up to the stated length, symbolic data",
    "reference model: dict handle -> cell-id array; documented rules: a collection and its members and component views alias; copy()/slicing/append/arithmetic/operator results never alias their source; in-place operations touch valid cells of the target only",
    "object arrays alias exactly like float arrays (numpy views); dtype-dependent copy decisions are replayed with float arrays",
]
STUBS = I.STUBS
OUTSIDE = ["histories longer than the bound", "grids with more than 2 cells (aliasing is shape independent)", "storages (C20)"]
BOUNDS = {"max_paths": 30000, "tmax": 900.0, "query_timeout_ms": 10000, "max_int_fork": 32}
CASE_TIMEOUT = 3600
EXPLANATION = "exhaustive bounded histories with symbolic contents; per step term-level comparison of every handle against a heap model"


def bounds_text(tier):
    return f"histories of length {3 if tier == 'quick' else 4} after a fixed set-up (scalar, vector, collection) over up to 9 handles"


class Heap:
    def __init__(self):
        self.cells = {}  # id -> term
        self.h = {}  # handle name -> ndarray of ids (shape of .data)
        self.n = 0

    def new(self, name, terms):
        ids = np.empty(np.shape(terms), dtype=int)
        for idx in np.ndindex(*ids.shape):
            self.cells[self.n] = terms[idx]
            ids[idx] = self.n
            self.n += 1
        self.h[name] = ids
        return ids

    def alias(self, name, ids):
        self.h[name] = ids

    def read(self, name):
        ids = self.h[name]
        out = np.empty(ids.shape, dtype=object)
        for idx in np.ndindex(*ids.shape):
            out[idx] = self.cells[ids[idx]]
        return out

    def write(self, name, idx, term):
        ids = self.h[name][idx]
        for i in np.atleast_1d(ids).flat:
            self.cells[int(i)] = term

    def shares(self, a, b):
        return bool(set(self.h[a].flat) & set(self.h[b].flat))


def _check(env, heap, objs, tag):
    for name, obj in objs.items():
        want = heap.read(name)
        env.same(f"{tag}:{name}:reads-model-terms", list(np.asarray(obj.data, dtype=object if env.sym else float).flat), list(want.flat))
    names = list(objs)
    ok = True
    bad = None
    for a, b in itertools.combinations(names, 2):
        real = bool(np.shares_memory(objs[a].data, objs[b].data))
        if real != heap.shares(a, b):
            ok = False
            bad = (a, b, real)
    env.prove(f"{tag}:shares_memory-relation-as-documented", ok)
    env.prove(f"{tag}:data-of-every-field-is-writeable", all(bool(np.asarray(o.data).flags.writeable) for o in objs.values()))
    if not ok:
        env.note(f"sharing:{tag}", str(bad))


def _setup(env):
    import pde

    I._prepare(env)
    grid = pde.UnitGrid([2])
    dt = object if env.sym else float
    heap = Heap()
    objs = {}
    s_data = env.array("s", (2,), -4, 4)
    v_data = env.array("v", (1, 2), -4, 4)
    s = pde.ScalarField(grid, np.array(s_data, copy=True), label="s", dtype=dt)
    v = pde.VectorField(grid, np.array(v_data, copy=True), label="v", dtype=dt)
    heap.new("s", s_data)
    heap.new("v", v_data)
    objs["s"], objs["v"] = s, v
    # ghost cells are given known symbols so that 'ghost cells untouched' is observable
    ghosts = {}
    for name, f in (("s", s), ("v", v)):
        g = env.array(f"g{name}", f._data_full[..., [0, -1]].shape, -4, 4)
        f._data_full[..., 0] = g[..., 0]
        f._data_full[..., -1] = g[..., 1]
        ghosts[name] = g
    return grid, dt, heap, objs, ghosts


OPS = ["write", "assign", "iadd", "add", "copy", "slice", "append", "view", "collect"]
# further operations used as the *first* step of a history only (the following steps then act on their results too)
FIRST_ONLY = ["real", "neg", "conjugate", "assign_field"]


def scenario_history(env, cfg):
    import pde

    grid, dt, heap, objs, ghosts = _setup(env)
    L = cfg["L"]
    if cfg.get("collection_first", True):
        c = pde.FieldCollection([objs["s"], objs["v"]], copy_fields=False)
        # documented: the members are re-linked to the collection's memory, layout fields in order
        heap.alias("c", np.concatenate([heap.h["s"].reshape(1, 2), heap.h["v"].reshape(1, 2)], axis=0))
        objs["c"] = c
        _check(env, heap, objs, "setup")
    nfresh = [0]

    def fresh(tag):
        nfresh[0] += 1
        return env.real(f"w{nfresh[0]}", -4, 4)

    prefix = cfg.get("prefix", [])
    for k in range(L):
        names = list(objs)
        if k < len(prefix):
            op = prefix[k]
        else:
            op = OPS[int(env.integer(f"op{k}", 0, len(OPS) - 1))]
        tgt = names[int(env.integer(f"h{k}", 0, len(names) - 1))]
        obj = objs[tgt]
        tag = f"step{k}:{op}({tgt})"
        newname = f"n{k}"
        if op == "write":
            val = fresh("w")
            obj.data[..., 0] = val
            heap.write(tgt, (Ellipsis, 0), val)
        elif op == "assign":
            val = fresh("a")
            arr = np.empty(obj.data.shape, dtype=dt)
            arr[...] = val
            obj.data = arr
            heap.write(tgt, Ellipsis, val)
            arr[...] = 0  # the assigned array must have been copied into the field's memory
        elif op == "iadd":
            before = heap.read(tgt)
            obj += 1.5
            for idx in np.ndindex(*heap.h[tgt].shape):
                heap.cells[int(heap.h[tgt][idx])] = before[idx] + 1.5
        elif op == "add":
            res = obj + obj
            heap.new(newname, heap.read(tgt) * 2)
            objs[newname] = res
        elif op == "copy":
            res = obj.copy()
            heap.new(newname, heap.read(tgt))
            objs[newname] = res
        elif op == "slice":
            if not isinstance(obj, pde.FieldCollection):
                continue
            res = obj[0:1]
            heap.new(newname, heap.read(tgt)[0:1])
            objs[newname] = res
        elif op == "append":
            if not isinstance(obj, pde.FieldCollection):
                continue
            res = obj.append(objs["s"])
            heap.new(newname, np.concatenate([heap.read(tgt), heap.read("s").reshape(1, 2)], axis=0))
            objs[newname] = res
        elif op == "view":
            if isinstance(obj, pde.VectorField):
                res = obj[0]
                heap.alias(newname, heap.h[tgt][0])
                objs[newname] = res
            elif isinstance(obj, pde.FieldCollection):
                res = obj[len(obj) - 1]
                # a member of the collection: aliases the corresponding rows
                rows = obj._slices[len(obj) - 1]
                heap.alias(newname, heap.h[tgt][rows].reshape(res.data.shape))
                objs[newname] = res
            else:
                continue
        elif op in ("real", "neg", "conjugate"):
            # unary operations return fresh fields (for real data numpy's own real/conjugate return views of the input)
            res = obj.real if op == "real" else (-obj if op == "neg" else obj.conjugate())
            heap.new(newname, heap.read(tgt) * (-1 if op == "neg" else 1))
            objs[newname] = res
        elif op == "assign_field":
            # `field.data = other_field` copies the valid data only: ghost cells of the target stay as they are
            other = obj.copy()
            vals = env.array(f"o{k}", other._data_full.shape, -4, 4)
            other._data_full[...] = vals
            obj.data = other
            src = other.data
            for idx in np.ndindex(*heap.h[tgt].shape):
                heap.cells[int(heap.h[tgt][idx])] = src[idx]
            heap.new(newname, np.array(src, copy=True))
            objs[newname] = other
        elif op == "collect":
            if isinstance(obj, pde.FieldCollection):
                continue
            res = pde.FieldCollection([obj], copy_fields=True)
            heap.new(newname, heap.read(tgt).reshape((-1, 2)))
            objs[newname] = res
        _check(env, heap, objs, tag)
        # ghost cells of the source fields never change through valid-data operations
        for name in ("s", "v"):
            f = objs[name]
            g = ghosts[name]
            env.same(f"{tag}:{name}:ghost-cells-untouched", list(f._data_full[..., 0].flat) + list(f._data_full[..., -1].flat), list(g[..., 0].flat) + list(g[..., 1].flat))
    env.observe("n_handles", len(objs))


def scenario_tensor(env, cfg):
    """rank-2 tensor: component views, membership in a collection, in-place transpose, operator results"""
    import pde

    I._prepare(env)
    grid = pde.UnitGrid([2, 1])
    dt = object if env.sym else float
    t_data = env.array("t", (2, 2, 2, 1), -4, 4)
    s_data = env.array("s", (2, 1), -4, 4)
    t = pde.Tensor2Field(grid, np.array(t_data, copy=True), dtype=dt)
    s = pde.ScalarField(grid, np.array(s_data, copy=True), dtype=dt)
    c = pde.FieldCollection([s, t], copy_fields=False)
    # (component views are taken after the collection re-linked its members)
    view01 = t[0, 1]
    env.prove("component-view-aliases-tensor", bool(np.shares_memory(view01.data, t.data)))
    env.prove("member-aliases-collection", bool(np.shares_memory(c.data, t.data)) and bool(np.shares_memory(c.data, s.data)))
    # layout: fields in order, tensor components row-major
    for i in range(2):
        for j in range(2):
            env.same(f"collection-row{1 + 2 * i + j}=component({i},{j})", list(c.data[1 + 2 * i + j].flat), list(t_data[i, j].flat))
    w = env.real("w", -4, 4)
    c.data[2, 0, 0] = w  # row 2 = component (0, 1)
    env.same("write-through-collection-seen-in-tensor", [t.data[0, 1, 0, 0]], [w])
    env.same("write-through-collection-seen-in-component-view", [view01.data[0, 0]], [w])
    expect = np.array(t_data, copy=True)
    expect[0, 1, 0, 0] = w
    # non in-place transpose: fresh memory
    tt = t.transpose()
    env.prove("transpose()-result-does-not-alias", not bool(np.shares_memory(tt.data, t.data)))
    env.same("transpose()-values", list(tt.data.flat), list(np.swapaxes(expect, 0, 1).flat))
    env.same("transpose()-leaves-operand-unchanged", list(t.data.flat), list(expect.flat))
    # in-place transpose keeps the aliasing with the collection and the views
    t.transpose(inplace=True) if "inplace" in t.transpose.__code__.co_varnames else None
    if "inplace" in t.transpose.__code__.co_varnames:
        exp2 = np.swapaxes(expect, 0, 1)
        env.same("inplace-transpose:tensor-values", list(t.data.flat), list(exp2.flat))
        for i in range(2):
            for j in range(2):
                env.same(f"inplace-transpose:collection-row{1 + 2 * i + j}=component({i},{j})", list(c.data[1 + 2 * i + j].flat), list(exp2[i, j].flat))
        env.same("inplace-transpose:component-view-follows", list(view01.data.flat), list(exp2[0, 1].flat))
    # operator results never alias the operand
    lap = s.apply_operator("laplace", bc="auto_periodic_neumann", backend="numba")
    env.prove("operator-result-does-not-alias", not bool(np.shares_memory(lap.data, s.data)))
    env.reach()


def scenario_float(env, cfg):
    """dtype-dependent copy decisions replayed with float arrays (enumerated)"""
    import pde

    grid = pde.UnitGrid([3])
    for dt in (float, complex, np.float32):
        arr = np.arange(3, dtype=dt) + 1
        f = pde.ScalarField(grid, arr, dtype=dt)
        env.prove(f"{np.dtype(dt).name}:field-does-not-alias-the-array-it-was-built-from", not bool(np.shares_memory(f.data, arr)))
        env.prove(f"{np.dtype(dt).name}:data-is-a-view-of-the-padded-array", bool(np.shares_memory(f.data, f._data_full)))
        full = np.arange(5, dtype=dt)
        f2 = pde.ScalarField(grid, full, with_ghost_cells=True, dtype=dt)
        f2.data[0] = 42
        env.prove(f"{np.dtype(dt).name}:with_ghost_cells-links-the-given-array", bool(full[1] == 42))
        c = pde.FieldCollection([f, f.copy()], copy_fields=False)
        c.data[0, 0] = 7
        env.prove(f"{np.dtype(dt).name}:member-sees-write-through-collection", bool(f.data[0] == 7))
        cs = c[0:1]
        cs.data[0, 0] = 9
        env.prove(f"{np.dtype(dt).name}:slice-is-a-copy", bool(c.data[0, 0] == 7))
        ap = c.append(c)
        ap.data[...] = 0
        env.prove(f"{np.dtype(dt).name}:append-result-is-a-copy", bool(c.data[0, 0] == 7) and bool(c[0].data[0] == 7))
        c[0].data[1] = 11
        env.prove(f"{np.dtype(dt).name}:append-leaves-members-linked-to-their-collection", bool(c.data[0, 1] == 11))


def cases(tier, seed):
    q = tier == "quick"
    L = 3 if q else 4
    out = []
    for first in OPS + [f for f in FIRST_ONLY if not (q and f == "neg")]:
        out.append({"name": f"history:first={first}:L={L}", "scenario": "scenario_history", "cfg": {"L": L, "prefix": [first]}, "validate_paths": 1})
    out.append({"name": f"history:no-collection:L={L}", "scenario": "scenario_history", "cfg": {"L": L, "collection_first": False}, "validate_paths": 1})
    if not q:
        for c_ in out:
            # histories of length 4: 30 000+ paths per case; explored up to the caps, every explored history is checked,
            # an incomplete exploration is recorded in the evidence (per_case.complete) and not an error
            c_["bounds"] = {"max_paths": 80000, "tmax": 3000.0, "path_timeout": 300.0}
            c_["optional"] = True
    out.append({"name": "tensor", "scenario": "scenario_tensor", "cfg": {}})
    out.append({"name": "float-dtypes", "scenario": "scenario_float", "cfg": {}, "validate_paths": 0})
    return out


CANARIES = [
    {
        "name": "slicing-relinks-instead-of-copying",
        "case": "history:first=slice:L=3",
        "patch": [("pde.fields.collection:FieldCollection.__getitem__", "return FieldCollection(self.fields[index], copy_fields=True)", "return FieldCollection(self.fields[index], copy_fields=False)")],
        "expect": "reads-model|shares",
    },
    {
        "name": "copy-shares-the-padded-array",
        "case": "history:first=copy:L=3",
        "patch": [("pde.fields.datafield_base:DataFieldBase.copy", "data=np.array(self._data_full, dtype=dtype, copy=True),", "data=self._data_full,")],
        "expect": "reads-model|shares",
    },
]
