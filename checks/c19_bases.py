"""C19 — vector and tensor components are tied to the right basis vectors."""

from __future__ import annotations

import numpy as np

from symx import ops as O

from . import _ops as X
from . import c12_geometry as G

ID = "C19"
LEVEL = "model_checking"
FUNCTIONS = [
    "pde.grids.coordinates.polar:PolarCoordinates._basis_rotation",
    "pde.grids.coordinates.polar:PolarCoordinates._mapping_jacobian",
    "pde.grids.coordinates.polar:PolarCoordinates._pos_to_cart",
    "pde.grids.coordinates.spherical:SphericalCoordinates._basis_rotation",
    "pde.grids.coordinates.spherical:SphericalCoordinates._mapping_jacobian",
    "pde.grids.coordinates.spherical:SphericalCoordinates._pos_to_cart",
    "pde.grids.coordinates.cylindrical:CylindricalCoordinates._basis_rotation",
    "pde.grids.coordinates.cylindrical:CylindricalCoordinates._mapping_jacobian",
    "pde.grids.coordinates.cylindrical:CylindricalCoordinates._pos_to_cart",
    "pde.grids.coordinates.base:CoordinatesBase.basis_rotation",
    "pde.grids.base:GridBase._vector_to_cartesian",
    "pde.grids.base:GridBase._coords_full",
    "pde.fields.vectorial:VectorField.__getitem__",
    "pde.fields.vectorial:VectorField.interpolate_to_grid",
    "pde.fields.vectorial:VectorField.from_expression",
    "pde.fields.vectorial:VectorField.dot",
    "pde.fields.vectorial:VectorField.outer_product",
    "pde.backends.numba.backend:NumbaBackend.make_outer_prod_operator",
    "pde.backends.numba.backend:NumbaBackend.make_inner_prod_operator",
    "pde.grids.base:GridBase.get_vector_data",
    "pde.grids.spherical:SphericalSymGridBase.get_image_data",
    "pde.backends.numba.operators.cylindrical_sym:make_vector_gradient",
    "pde.backends.numba.operators.cylindrical_sym:make_divergence",
    "pde.backends.numba.operators.cylindrical_sym:make_gradient",
]
ASSUMPTIONS = [
    "angles are symbols; cos/sin are uninterpreted functions constrained by cos^2 + sin^2 = 1 for every angle that occurs (all identities checked are polynomial consequences of that)",
    "radii in [1/4, 4], components in [-4, 4]; sin(theta) > 0 for spherical coordinates (away from the poles)",
    "'one component order': the k-th data component belongs to the basis vector of the k-th name in grid.axes + grid.axes_symmetric - the order used by access via axis names and (C01) by the differential operators",
]
STUBS = G.STUBS + ["np.cos/np.sin on symbolic angles -> uf_cos/uf_sin with the Pythagorean axiom"]
OUTSIDE = ["arctan2/arccos branches of pos_from_cart with symbolic Cartesian points (the conversion pipeline is run on concrete target grids with symbolic field amplitudes)", "tensor conversion to Cartesian grids (not offered by the package)"]
BOUNDS = {"max_paths": 100, "tmax": 600.0, "query_timeout_ms": 30000}
EXPLANATION = "bases, Jacobians and the component->basis association executed on symbolic points/components; polynomial identities modulo the unit-circle axiom"
SC = 4096


def bounds_text(tier):
    return "three curvilinear coordinate systems; single symbolic point; one target Cartesian grid per source grid"


def _coords(kind):
    import pde.grids.coordinates as C

    return {"polar": C.PolarCoordinates(), "sph": C.SphericalCoordinates(), "cyl": C.CylindricalCoordinates()}[kind]


def _point(env, kind):
    r = env.real("r", 0.25, 4)
    if kind == "polar":
        names = ["r", "phi"]
        p = [r, env.real("phi", -7, 7)]
    elif kind == "sph":
        names = ["r", "theta", "phi"]
        p = [r, env.real("theta", 0, 3.2), env.real("phi", -7, 7)]
    else:
        names = ["r", "phi", "z"]
        p = [r, env.real("phi", -7, 7), env.real("z", -4, 4)]
    arr = np.empty(len(p), dtype=object if env.sym else float)
    arr[:] = p
    return arr, names


def _cs(x):
    return np.cos(x) if not hasattr(x, "cos") else x.cos(), np.sin(x) if not hasattr(x, "sin") else x.sin()


def _unit_vectors(env, kind, p):
    """Cartesian components of the local unit vectors, by name (written from the geometry)"""
    if kind == "polar":
        c, s = _cs(p[1])
        return {"r": [c, s], "φ": [-s, c]}
    if kind == "cyl":
        c, s = _cs(p[1])
        return {"r": [c, s, 0], "φ": [-s, c, 0], "z": [0, 0, 1]}
    ct, st = _cs(p[1])
    cp, sp = _cs(p[2])
    return {"r": [st * cp, st * sp, ct], "θ": [ct * cp, ct * sp, -st], "φ": [-sp, cp, 0]}


def scenario_basis(env, cfg):
    G._prepare(env)
    env.nonlinear()
    kind = cfg["kind"]
    c = _coords(kind)
    p, names = _point(env, kind)
    if kind == "sph":
        env.assume(_cs(p[1])[1] > 1 / 64)
    R = np.asarray(c._basis_rotation(p), dtype=object if env.sym else float)
    d = R.shape[0]
    # orthonormal
    lhs, rhs = [], []
    for i in range(d):
        for j in range(d):
            lhs.append(O.total(R[i, k] * R[j, k] for k in range(d)))
            rhs.append(1 if i == j else 0)
    env.close("basis-orthonormal", lhs, rhs, scale=SC)
    # right handed
    if d == 2:
        det = R[0, 0] * R[1, 1] - R[0, 1] * R[1, 0]
    else:
        det = R[0, 0] * (R[1, 1] * R[2, 2] - R[1, 2] * R[2, 1]) - R[0, 1] * (R[1, 0] * R[2, 2] - R[1, 2] * R[2, 0]) + R[0, 2] * (R[1, 0] * R[2, 1] - R[1, 1] * R[2, 0])
    env.close("basis-right-handed(det=+1)", det, 1, scale=SC)
    # rows = normalised Jacobian columns
    J = np.asarray(c._mapping_jacobian(p), dtype=object if env.sym else float)
    h = list(np.asarray(c._scale_factors(p), dtype=object if env.sym else float))
    lhs, rhs = [], []
    for i in range(d):
        for k in range(d):
            lhs.append(J[k, i])
            rhs.append(h[i] * R[i, k])
    env.close("basis-rows=normalised-jacobian-columns", lhs, rhs, scale=SC)
    # rows are the geometric unit vectors in coordinate order
    uv = _unit_vectors(env, kind, p)
    order = {"polar": ["r", "φ"], "cyl": ["r", "φ", "z"], "sph": ["r", "θ", "φ"]}[kind]
    lhs, rhs = [], []
    for i, nme in enumerate(order):
        for k in range(d):
            lhs.append(R[i, k])
            rhs.append(uv[nme][k])
    env.close("basis-rows=unit-vectors-of-the-coordinate-lines", lhs, rhs, scale=SC)
    # the Jacobian is the derivative of pos_to_cart: checked on the scale factors |d x / d q_i| = h_i
    x = np.asarray(c._pos_to_cart(p), dtype=object if env.sym else float)
    env.close("pos_to_cart-radius", O.total(v * v for v in x), p[0] * p[0] + (p[2] * p[2] if kind == "cyl" else 0), scale=SC * 16)
    env.observe("R", R)
    env.reach(hints=[{"r": 1}])


def scenario_component_order(env, cfg):
    """the k-th component of a vector belongs to the basis vector named grid.axes+axes_symmetric[k]"""
    import pde

    G._prepare(env)
    env.nonlinear()
    kind = cfg["kind"]
    grid, geom = X.make_grid(env, dict({"polar": G.GRIDS["polar:hole"], "sph": G.GRIDS["sph:hole"], "cyl": G.GRIDS["cyl:hole"]}[kind], geometry="dyadic"))
    names = list(grid.axes) + list(grid.axes_symmetric)
    env.prove("component-names", names == {"polar": ["r", "φ"], "sph": ["r", "θ", "φ"], "cyl": ["r", "z", "φ"]}[kind])
    # by-name access selects that index
    data = env.array("v", (grid.dim,) + grid.shape, -4, 4)
    vf = pde.VectorField(grid, data, dtype=object if env.sym else float)
    for k, nme in enumerate(names):
        env.same(f"access-by-name:{nme}->component{k}", list(vf[nme].data.flat), list(data[k].flat))
    # conversion of components to the Cartesian basis at a symbolic point
    p, _ = _point(env, kind)
    if kind == "sph":
        env.assume(_cs(p[1])[1] > 1 / 64)
    comps = env.array("c", (grid.dim,), -4, 4)
    got = np.asarray(grid._vector_to_cartesian(np.array(p, copy=True), np.array(comps, copy=True)), dtype=object if env.sym else float)
    uv = _unit_vectors(env, kind, p)
    want = [O.total(comps[k] * uv[nme][i] for k, nme in enumerate(names)) for i in range(grid.dim)]
    env.close("vector_to_cartesian=sum_k(component_k*e_{name_k})", list(got), want, scale=SC)
    # consequences named in the property
    if kind == "cyl":
        ez = np.zeros(3, dtype=object if env.sym else float)
        ez[names.index("z")] = 1
        got_z = np.asarray(grid._vector_to_cartesian(np.array(p, copy=True), ez), dtype=object if env.sym else float)
        env.close("uniform-axial-field->uniform-z-field", list(got_z), [0, 0, 1], scale=SC)
    er = np.zeros(grid.dim, dtype=object if env.sym else float)
    er[0] = p[0]
    got_r = np.asarray(grid._vector_to_cartesian(np.array(p, copy=True), er), dtype=object if env.sym else float)
    xcart = np.asarray(grid.c._pos_to_cart(np.array(p, copy=True)), dtype=object if env.sym else float)
    want_r = list(xcart) if kind != "cyl" else [xcart[0], xcart[1], 0]
    env.close("r*e_r->(x,y[,z])", list(got_r), want_r, scale=SC)
    env.observe("got", got)
    env.reach(hints=[{"r": 1}])


def scenario_pipeline(env, cfg):
    """VectorField.interpolate_to_grid(CartesianGrid): uniform axial field and radial field, symbolic amplitudes"""
    import pde

    from . import c16_interpolation as I

    I._prepare(env)
    kind = cfg["kind"]
    if kind == "cyl":
        grid = pde.CylindricalSymGrid(4, (-1, 1), (8, 4))
        cart = pde.CartesianGrid([[-1.5, 1.5], [-1.5, 1.5], [-0.75, 0.75]], [3, 3, 3])
    elif kind == "polar":
        grid = pde.PolarSymGrid(4, 8)
        cart = pde.CartesianGrid([[-1.5, 1.5], [-1.5, 1.5]], [3, 3])
    else:
        grid = pde.SphericalSymGrid(4, 8)
        cart = pde.CartesianGrid([[-1.5, 1.5]] * 3, [3, 3, 3])
    names = list(grid.axes) + list(grid.axes_symmetric)
    a = env.real("a", -4, 4)
    dt = object if env.sym else float
    if kind == "cyl":
        data = np.zeros((3,) + grid.shape, dtype=dt)
        data[names.index("z")] = a
        vf = pde.VectorField(grid, data, dtype=dt)
        res = vf.interpolate_to_grid(cart, fill=0)
        env.close("uniform-axial-field-becomes-uniform-z-field", list(res.data[2].flat), [a] * int(np.prod(cart.shape)), scale=SC)
        env.close("uniform-axial-field:no-x-y-components", list(res.data[0].flat) + list(res.data[1].flat), [0] * (2 * int(np.prod(cart.shape))), scale=SC)
    # radial field a*r*e_r -> a*(x, y[, z])
    data = np.zeros((grid.dim,) + grid.shape, dtype=dt)
    rr = grid.axes_coords[0]
    data[0] = (a * rr).reshape((-1,) + (1,) * (grid.num_axes - 1)) * np.ones(grid.shape)
    vf = pde.VectorField(grid, data, dtype=dt)
    res = vf.interpolate_to_grid(cart, bc="auto_periodic_neumann" if False else None, fill=0)
    coords = cart.cell_coords
    nmax = 2 if kind != "sph" else 3
    lhs, rhs = [], []
    for i in range(nmax):
        for idx in np.ndindex(*cart.shape):
            rad = float(np.sqrt(sum(coords[idx][k] ** 2 for k in range(nmax))))
            if rad < 0.6 or rad > 3.4:
                continue  # outside the range where linear interpolation of a*r between centres is exact
            lhs.append(res.data[(i,) + idx])
            rhs.append(a * float(coords[idx][i]))
    env.close("radial-field-becomes-(x,y[,z])", lhs, rhs, scale=SC)
    if kind == "cyl":
        # r*e_r has no axial part: (x, y, 0) on every target cell, also away from the plane z = 0
        env.close("radial-field:no-z-component", list(res.data[2].flat), [0] * int(np.prod(cart.shape)), scale=SC)
    env.observe("res", res.data)
    env.reach()


def scenario_operators_by_name(env, cfg):
    """the component that access by axis name selects is the one the differential operators use"""
    import pde

    from . import c16_interpolation as I

    I._prepare(env)
    grid = pde.CylindricalSymGrid((1, 3), (-1, 1), (4, 4))
    names = list(grid.axes) + list(grid.axes_symmetric)
    a = env.real("a", 0.25, 4)
    dt = object if env.sym else float
    r = grid.cell_coords[..., 0]
    z = grid.cell_coords[..., 1]
    inner = (slice(1, -1), slice(1, -1))
    bc = "auto_periodic_neumann"
    # gradient of a*z has only a 'z' component
    f = pde.ScalarField(grid, np.asarray(a * z, dtype=dt), dtype=dt)
    g = f.gradient(bc)
    env.close("gradient(a*z)['z']=a", list(g["z"].data[inner].flat), [a] * 4, scale=SC)
    env.close("gradient(a*z)['r']=0", list(g["r"].data[inner].flat), [0] * 4, scale=SC)
    # divergence of a*z*e_z is a; divergence of a*r*e_r is 2a
    v = pde.VectorField(grid, dtype=dt)
    v.data[...] = 0
    v["z"] = np.asarray(a * z, dtype=dt)
    env.close("divergence(a*z*e_z)=a", list(v.divergence(bc).data[inner].flat), [a] * 4, scale=SC)
    # vector gradient of a*z*e_z: only the (z, z) entry; nothing in (r, phi) / (phi, r)
    t = v.gradient(bc)
    iz, ir, ip = names.index("z"), names.index("r"), names.index("φ")
    env.close("vector_gradient(a*z*e_z)[z,z]=a", list(t.data[iz, iz][inner].flat), [a] * 4, scale=SC)
    env.close("vector_gradient(a*z*e_z)[r,phi]=0", list(t.data[ir, ip][inner].flat), [0] * 4, scale=SC)
    env.close("vector_gradient(a*z*e_z)[phi,r]=0", list(t.data[ip, ir][inner].flat), [0] * 4, scale=SC)
    # rigid rotation a*r*e_phi: gradient has (r, phi) = -a and (phi, r) = a, nothing in the z rows
    w = pde.VectorField(grid, dtype=dt)
    w.data[...] = 0
    w["φ"] = np.asarray(a * r, dtype=dt)
    tw = w.gradient(bc)
    env.close("vector_gradient(a*r*e_phi)[r,phi]=-a", list(tw.data[ir, ip][inner].flat), [-a] * 4, scale=SC)
    env.close("vector_gradient(a*r*e_phi)[phi,r]=a", list(tw.data[ip, ir][inner].flat), [a] * 4, scale=SC)
    env.close("vector_gradient(a*r*e_phi)[z,r]=0", list(tw.data[iz, ir][inner].flat), [0] * 4, scale=SC)
    env.reach()


def scenario_vector_data(env, cfg):
    """conversion for vector plots (get_vector_data): r*e_r -> (x, y), r*e_phi -> (-y, x) at the returned points"""
    import pde

    from . import c16_interpolation as I

    # (the image pipeline goes through scipy's interp1d: concrete amplitude, enumerated points)
    grid = pde.PolarSymGrid((1, 3), 4)
    a = 1.5
    dt = float
    rr = grid.axes_coords[0]
    for which, want in (("radial", lambda X, Y: (X, Y)), ("azimuthal", lambda X, Y: (-Y, X))):
        vf = pde.VectorField(grid, dtype=dt)
        vf.data[...] = 0
        vf.data[0 if which == "radial" else 1] = np.asarray(a * rr, dtype=dt)
        d = vf.get_vector_data(transpose=False) if "transpose" in vf.get_vector_data.__code__.co_varnames else vf.get_vector_data()
        X, Y = np.meshgrid(d["x"], d["y"], indexing="ij")
        lhs, rhs = [], []
        for idx in np.ndindex(*X.shape):
            rad = float(np.hypot(X[idx], Y[idx]))
            if not (1.3 < rad < 2.7) or (idx[0] + idx[1]) % 3:
                continue
            wx, wy = want(float(X[idx]), float(Y[idx]))
            lhs += [d["data_x"][idx], d["data_y"][idx]]
            rhs += [a * wx, a * wy]
        env.prove(f"{which}:points-sampled", len(lhs) > 4)
        env.prove(f"get_vector_data:{which}-field", bool(np.allclose(np.array(lhs, dtype=float), np.array(rhs, dtype=float), rtol=0.02, atol=0.02)))


def scenario_products(env, cfg):
    """dot and outer products keep the component order: field API (numpy) and the numba operators, distinct operands"""
    import importlib

    import pde
    from pde.backends import get_backend

    from . import c16_interpolation as I

    I._prepare(env)
    kind = cfg["kind"]
    grid = {"polar": lambda: pde.PolarSymGrid((1, 2), 2), "sph": lambda: pde.SphericalSymGrid((1, 2), 2), "cyl": lambda: pde.CylindricalSymGrid((1, 2), (0, 1), (2, 1))}[kind]()
    names = list(grid.axes) + list(grid.axes_symmetric)
    dim = grid.dim
    dt = object if env.sym else float
    a = env.array("a", (dim,) + grid.shape, -4, 4)
    b = env.array("b", (dim,) + grid.shape, -4, 4)
    c = env.array("c", (dim,) + grid.shape, -4, 4)
    A = pde.VectorField(grid, np.array(a, copy=True), dtype=dt)
    Bf = pde.VectorField(grid, np.array(b, copy=True), dtype=dt)
    Cf = pde.VectorField(grid, np.array(c, copy=True), dtype=dt)
    want_outer = np.empty((dim, dim) + grid.shape, dtype=dt)
    for i in range(dim):
        for j in range(dim):
            want_outer[i, j] = a[i] * b[j]
    want_dot = O.total(a[i] * b[i] for i in range(dim))
    want_tc = np.empty((dim,) + grid.shape, dtype=dt)  # (a (x) b) . c = a (b . c)
    bc_ = O.total(b[j] * c[j] for j in range(dim))
    for i in range(dim):
        want_tc[i] = a[i] * bc_
    # field API
    # (the method allocates a float64 result when no `out` is given: an object-dtype result field for the symbolic run)
    T = A.outer_product(Bf, out=pde.Tensor2Field(grid, dtype=dt)) if env.sym else A.outer_product(Bf)
    env.close("field-api:outer[i,j]=a_i*b_j", list(np.asarray(T.data, dtype=dt).flat), list(want_outer.flat), scale=SC)
    for i, ni in enumerate(names):
        for j, nj in enumerate(names):
            env.close(f"field-api:outer[{ni},{nj}]=a[{ni}]*b[{nj}]", list(np.asarray(T[ni, nj].data, dtype=dt).flat), list(np.asarray(A[ni].data * Bf[nj].data, dtype=dt).flat), scale=SC)
    kw_s = {"out": pde.ScalarField(grid, dtype=dt)} if env.sym else {}
    kw_v = {"out": pde.VectorField(grid, dtype=dt)} if env.sym else {}
    env.close("field-api:dot=sum_i(a_i*b_i)", list(np.asarray(A.dot(Bf, **kw_s).data, dtype=dt).flat), list(np.asarray(want_dot, dtype=dt).flat), scale=SC)
    env.close("field-api:(a(x)b).c=a(b.c)", list(np.asarray(T.dot(Cf, **kw_v).data, dtype=dt).flat), list(want_tc.flat), scale=SC)
    # numba operators; un-jitted run: the overloads that numba compiles are captured and their specialisations executed
    nb = get_backend("numba")
    nbmod = importlib.import_module("pde.backends.numba.backend")
    utils = importlib.import_module("pde.backends.numba.utils")
    captured = {}
    saved = (nbmod.nb_overload, utils.get_common_numba_dtype)
    if env.sym:

        def _capture(fn, **kw):
            def deco(ol):
                captured[fn.__name__] = ol
                return ol

            return deco

        nbmod.nb_overload = _capture
        utils.get_common_numba_dtype = lambda *args: object  # result arrays of the symbolic run hold objects
    try:
        op_outer = nb.make_outer_prod_operator(A)
        op_dot = nb.make_inner_prod_operator(A)
        op_dot_t = nb.make_inner_prod_operator(T)
        results = {}
        if env.sym:
            import numba as _nb

            vec_t = _nb.types.Array(_nb.float64, 1 + grid.num_axes, "C")
            ten_t = _nb.types.Array(_nb.float64, 2 + grid.num_axes, "C")
            results["numba:outer"] = captured["outer"](vec_t, vec_t, _nb.types.none)(np.array(a, copy=True), np.array(b, copy=True), None)
            out = np.empty((dim, dim) + grid.shape, dtype=dt)
            captured["outer"](vec_t, vec_t, ten_t)(np.array(a, copy=True), np.array(b, copy=True), out)
            results["numba:outer(out=)"] = out
            # (re-create the dot operator so that `captured["dot"]` is the one of this operator)
            results["numba:dot"] = captured["dot"](vec_t, vec_t, _nb.types.none)(np.array(a, copy=True), np.array(b, copy=True), None)
            results["numba:tensor.dot(vector)"] = captured["dot"](ten_t, vec_t, _nb.types.none)(np.array(want_outer, copy=True), np.array(c, copy=True), None)
        else:
            results["numba:outer"] = op_outer(np.array(a, copy=True), np.array(b, copy=True))
            out = np.empty((dim, dim) + grid.shape)
            op_outer(np.array(a, copy=True), np.array(b, copy=True), out)
            results["numba:outer(out=)"] = out
            results["numba:dot"] = op_dot(np.array(a, copy=True), np.array(b, copy=True))
            results["numba:tensor.dot(vector)"] = op_dot_t(np.array(want_outer, copy=True), np.array(c, copy=True))
    finally:
        nbmod.nb_overload, utils.get_common_numba_dtype = saved
    env.close("numba:outer[i,j]=a_i*b_j", list(np.asarray(results["numba:outer"], dtype=dt).flat), list(want_outer.flat), scale=SC)
    env.close("numba:outer(out=)[i,j]=a_i*b_j", list(np.asarray(results["numba:outer(out=)"], dtype=dt).flat), list(want_outer.flat), scale=SC)
    env.close("numba:dot=sum_i(a_i*b_i)", list(np.asarray(results["numba:dot"], dtype=dt).flat), list(np.asarray(want_dot, dtype=dt).flat), scale=SC)
    env.close("numba:(a(x)b).c=a(b.c)", list(np.asarray(results["numba:tensor.dot(vector)"], dtype=dt).flat), list(want_tc.flat), scale=SC)
    env.observe("outer", results["numba:outer"])
    env.reach()


def cases(tier, seed):
    out = [{"name": "operators-by-name:cyl", "scenario": "scenario_operators_by_name", "cfg": {}}, {"name": "vector-data:polar", "scenario": "scenario_vector_data", "cfg": {}, "validate_paths": 0}]
    for k in ("polar", "sph", "cyl"):
        out.append({"name": f"basis:{k}", "scenario": "scenario_basis", "cfg": {"kind": k}})
        out.append({"name": f"component-order:{k}", "scenario": "scenario_component_order", "cfg": {"kind": k}})
        out.append({"name": f"pipeline:{k}", "scenario": "scenario_pipeline", "cfg": {"kind": k}})
        out.append({"name": f"products:{k}", "scenario": "scenario_products", "cfg": {"kind": k}})
    return out


CANARIES = [
    {
        "name": "polar-basis-left-handed",
        "case": "basis:polar",
        "patch": [("pde.grids.coordinates.polar:PolarCoordinates._basis_rotation", "[-sinφ, cosφ]", "[sinφ, -cosφ]")],
        "expect": "right-handed|unit-vectors",
    },
]
