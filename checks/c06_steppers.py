"""C06 — time steppers realise their scheme exactly, on every backend.

The real stepping functions (``solver.make_stepper`` → python loops of pde/solvers/base.py or
their numba re-implementations in pde/backends/numba/_solvers.py, and the single-step closures
of every solver class) are executed on a symbolic state, symbolic dt/t and a symbolic linear,
explicitly time-dependent right-hand side f(u, t) = a*u + b*t + c*t**2.  The oracle is the
scheme written from its textbook definition in this file.
"""

from __future__ import annotations

import importlib
from fractions import Fraction as F

import numpy as np

from symx import ops as O
from symx.values import SymComplex, SymReal, install_float_shadow

ID = "C06"
LEVEL = "model_checking"
FUNCTIONS = [
    "pde.solvers.euler:EulerSolver._make_single_step_fixed_dt",
    "pde.solvers.runge_kutta:RungeKuttaSolver._make_single_step_fixed_dt",
    "pde.solvers.runge_kutta:RungeKuttaSolver._make_single_step_error_estimate",
    "pde.solvers.implicit:ImplicitSolver._make_single_step_fixed_dt_deterministic",
    "pde.solvers.crank_nicolson:CrankNicolsonSolver._make_single_step_fixed_dt",
    "pde.solvers.adams_bashforth:AdamsBashforthSolver._make_inner_stepper",
    "pde.solvers.base:SolverBase._make_inner_stepper",
    "pde.solvers.base:AdaptiveSolverBase._make_inner_stepper",
    "pde.solvers.base:AdaptiveSolverBase._make_single_step_error_estimate",
    "pde.solvers.base:_make_dt_adjuster",
    "pde.solvers.euler:EulerSolver._make_inner_stepper",
    "pde.backends.numba._solvers:_make_fixed_stepper",
    "pde.backends.numba._solvers:_make_adams_bashforth_stepper",
    "pde.backends.numba._solvers:_make_adaptive_stepper_general",
    "pde.backends.numba._solvers:_make_adaptive_stepper_euler",
    "pde.backends.numba.backend:NumbaBackend.make_pde_rhs",
    "pde.backends.numpy.backend:NumpyBackend.make_pde_rhs",
]
ASSUMPTIONS = [
    "test right-hand side f(u,t) = a*u + b*t + c*t^2 on a 2-cell grid (cells are decoupled; two cells expose cross-cell mix-ups and the mean in the convergence test); a real or complex",
    "boxes: |u| <= 4, |a| <= 2, |b|,|c| <= 2, 1/64 <= dt <= 1/2, |t| <= 4; comparisons up to 1e-9 (absorbs the double rounding of tableau constants such as 1932/2197)",
    "iterative schemes (implicit, Crank-Nicolson) are unrolled to maxiter in {2,3}; deeper iteration counts raise ConvergenceError in the real code and are outside the bound",
    "adaptive steppers: at most 4 error-estimate evaluations per stepper call (longer runs are cut and counted as outside the bound); error_rel**-0.2 is an uninterpreted function",
]
STUBS = ["float() identity on symbolic reals in pde.solvers.*, pde.backends.numba._solvers", "nb.typeof -> None", "x**-0.2 -> uninterpreted function (adaptive step-size controller)"]
OUTSIDE = ["ScipySolver (solve_ivp is a compiled library)", "more iterations / steps than the unrolling bounds", "float absorption t + (t_end - t) != t_end", "global error bound of adaptive runs (only the per-step acceptance criterion and exact landing on t_end are decided)"]
BOUNDS = {"max_paths": 3000, "tmax": 600.0, "query_timeout_ms": 30000}
EXPLANATION = "every path through the real stepping code within the unrolling bounds; per path the new state/time is compared with the scheme's definition for all states, rates, dt and t"

TOL = 1e-9


class _NbProxy:
    def __init__(self, nb):
        self._nb = nb

    def __getattr__(self, k):
        return getattr(self._nb, k)

    def typeof(self, x):
        return None


_prep = {}


def _prepare(sym):
    if _prep:
        return
    names = ["pde.solvers.base", "pde.solvers.euler", "pde.solvers.runge_kutta", "pde.solvers.implicit", "pde.solvers.crank_nicolson", "pde.solvers.adams_bashforth", "pde.backends.numba._solvers"]
    mods = [importlib.import_module(n) for n in names]
    if sym:
        install_float_shadow(*mods)
        mods[-1].nb = _NbProxy(mods[-1].nb)
    _prep["ok"] = True


class BoundReached(BaseException):
    pass


def _make_pde(a, b, c, calls, complex_valued, max_calls=None):
    import pde

    class LinT(pde.PDEBase):
        def evolution_rate(self, state, t=0):
            if calls is not None:
                calls.append((np.array(state.data, copy=True), t))
                if max_calls and len(calls) > max_calls:
                    raise BoundReached
            res = state.copy()
            res.data = a * state.data + b * t + c * t * t
            return res

        def make_evolution_rate(self, state, backend):
            if calls is None:

                def rhs(data, t):
                    return a * data + b * t + c * t * t

            else:

                def rhs(data, t):
                    calls.append((np.array(data, copy=True), t))
                    if max_calls and len(calls) > max_calls:
                        raise BoundReached
                    return a * data + b * t + c * t * t

            return rhs

    eq = LinT()
    eq.complex_valued = complex_valued
    return eq


SOLVERS = {
    "euler": ("pde.solvers.euler", "EulerSolver"),
    "runge-kutta": ("pde.solvers.runge_kutta", "RungeKuttaSolver"),
    "implicit": ("pde.solvers.implicit", "ImplicitSolver"),
    "crank-nicolson": ("pde.solvers.crank_nicolson", "CrankNicolsonSolver"),
    "adams-bashforth": ("pde.solvers.adams_bashforth", "AdamsBashforthSolver"),
}


def _abs2(x):
    if isinstance(x, (SymComplex, complex, np.complexfloating)):
        return x.real * x.real + x.imag * x.imag
    return x * x


RuntimeError = RuntimeError  # documented outcome of the step-size controller (dt below dt_min)


class NotConverged(Exception):
    pass


def oracle_steps(name, u, t0, dt, n, f, env, maxiter=None, maxerror=None, alpha=0):
    """n steps of the scheme from its definition; u is a list of cell values"""
    size = len(u)
    u = list(u)
    if name == "adams-bashforth":
        prev = [u[i] - dt * f(u[i], t0) for i in range(size)]
    for k in range(n):
        t = t0 + k * dt
        if name == "euler":
            u = [x + dt * f(x, t) for x in u]
        elif name == "runge-kutta":
            new = []
            for x in u:
                k1 = dt * f(x, t)
                k2 = dt * f(x + k1 / 2, t + dt / 2)
                k3 = dt * f(x + k2 / 2, t + dt / 2)
                k4 = dt * f(x + k3, t + dt)
                new.append(x + (k1 + 2 * k2 + 2 * k3 + k4) / 6)
            u = new
        elif name == "adams-bashforth":
            new = [u[i] + dt * (F(3, 2) * f(u[i], t) - F(1, 2) * f(prev[i], t - dt)) for i in range(size)]
            prev, u = u, new
        elif name in ("implicit", "crank-nicolson"):
            ut = u
            if name == "implicit":
                g = lambda x, i: ut[i] + dt * f(x, t + dt)  # noqa: E731
                x = [ut[i] + dt * f(ut[i], t) for i in range(size)]
            else:
                rate_t = [f(ut[i], t) for i in range(size)]
                g = lambda x, i: alpha * x + (1 - alpha) * (ut[i] + dt / 2 * (f(x, t + dt) + rate_t[i]))  # noqa: E731
                x = [g(ut[i], i) for i in range(size)]
            for _ in range(maxiter):
                xn = [g(x[i], i) for i in range(size)]
                err = O.total(_abs2(xn[i] - x[i]) for i in range(size)) / size
                x = xn
                if env.is_true(err < maxerror**2):
                    break
            else:
                raise NotConverged
            u = x
        else:
            raise ValueError(name)
    return u


def _val(env, cfg, name, lo, hi):
    """symbolic input, or pinned to the concrete value given in cfg['fix']"""
    fix = cfg.get("fix") or {}
    if name in fix:
        return env.fixed(name, fix[name])
    return env.real(name, lo, hi)


def _inputs(env, cfg):
    cplx = cfg.get("complex", False)
    size = 2
    env.exact_first_ms = 8000
    if cplx:
        u = [SymComplex(env.real(f"u{i}r", -4, 4), env.real(f"u{i}i", -4, 4)) if env.sym else complex(env.real(f"u{i}r", -4, 4), env.real(f"u{i}i", -4, 4)) for i in range(size)]
        ar, ai = _val(env, cfg, "ar", -2, 2), _val(env, cfg, "ai", -2, 2)
        a = SymComplex(ar, ai) if env.sym else complex(ar, ai)
    else:
        u = [_val(env, cfg, f"u{i}", -4, 4) for i in range(size)]
        a = _val(env, cfg, "a", -2, 2)
    if cfg.get("autonomous"):
        b = c = 0
    else:
        b = env.real("b", -2, 2)
        c = env.real("c", -2, 2)
    dt = _val(env, cfg, "dt", 1 / 64, 1 / 2)
    t0 = _val(env, cfg, "t0", -4, 4)
    return u, a, b, c, dt, t0


def _state(env, u, cplx):
    import pde

    grid = pde.UnitGrid([len(u)])
    if env.sym:
        data = np.empty(len(u), dtype=object)
        data[:] = u
        return pde.ScalarField(grid, data, dtype=object)
    return pde.ScalarField(grid, np.array(u, dtype=complex if cplx else float), dtype=complex if cplx else float)


def scenario_fixed(env, cfg):
    """n steps through solver.make_stepper (real python / numba loops) vs the scheme definition"""
    _prepare(env.sym)
    name, backend, n = cfg["solver"], cfg["backend"], cfg["n"]
    u, a, b, c, dt, t0 = _inputs(env, cfg)
    cplx = cfg.get("complex", False)
    calls = [] if (env.sym or backend == "numpy") else None
    eq = _make_pde(a, b, c, calls, cplx)
    state = _state(env, u, cplx)
    kw = {}
    maxerror = None
    if name in ("implicit", "crank-nicolson"):
        maxerror = env.real("maxerror", 1 / 1024, 1 / 4) if cfg.get("maxerror") == "sym" else 1e-4
        kw = {"maxiter": cfg["maxiter"], "maxerror": maxerror}
        if name == "crank-nicolson" and cfg.get("alpha"):
            kw["explicit_fraction"] = cfg["alpha"]
    smod, scls = SOLVERS[name]
    solver = getattr(importlib.import_module(smod), scls)(eq, backend=backend, **kw)
    f = lambda x, t: a * x + b * t + c * t * t  # noqa: E731
    from pde.solvers.base import ConvergenceError

    stepper = solver.make_stepper(state, dt)
    converged = True
    try:
        if cfg.get("split"):
            # the run is split into two stepper calls (as the controller does at tracker interrupts); the first
            # requested end is off the step lattice by delta (|delta| < dt/2), so the time reached differs from it
            n1, n2 = cfg["split"]
            delta = env.real("delta", -0.4, 0.4) * dt
            t_mid = stepper(state, t0, t0 + n1 * dt + delta)
            env.close("split:time-reached-by-first-call=t0+n1*dt", t_mid, t0 + n1 * dt, scale=8)
            t_reached = stepper(state, t_mid, t_mid + n2 * dt)
        else:
            t_reached = stepper(state, t0, t0 + n * dt)
    except ConvergenceError:
        converged = False
    try:
        ref = oracle_steps(name, u, t0, dt, n, f, env, maxiter=cfg.get("maxiter"), maxerror=maxerror, alpha=cfg.get("alpha", 0))
        ref_converged = True
    except NotConverged:
        ref_converged = False
    env.observe("converged", converged)
    env.prove("convergence-error-raised-exactly-when-the-iteration-does-not-converge", converged == ref_converged)
    hints = [{"u0": 1, "u1": -1, "b": 0.5, "c": 0.25}, {"u0": 0, "u1": 0, "b": 0, "c": 0}, {"u0": 4, "u1": -4, "b": 2, "c": 2}, {"u0r": 1, "u0i": 0, "u1r": 0, "u1i": 1}, {"u0r": 0, "u0i": 0, "u1r": 0, "u1i": 0}]
    if not (converged and ref_converged):
        env.reach(hints=hints)
        return
    env.observe("state", state.data)
    env.observe("t", t_reached)
    env.close("state=scheme-definition", list(state.data), ref, scale=64)
    env.close("time-reached=t0+n*dt", t_reached, t0 + n * dt, scale=8)
    env.prove("steps-counter", solver.info["steps"] == n)
    if cfg.get("autonomous") and name in ("euler", "runge-kutta"):
        z = a * dt
        amp = 1 + z if name == "euler" else 1 + z + z * z / 2 + z * z * z / 6 + z * z * z * z / 24
        amp_n = 1
        for _ in range(n):
            amp_n = amp_n * amp
        env.close("amplification-factor", list(state.data), [amp_n * x for x in u], scale=64)
    if cfg.get("autonomous") and name in ("implicit", "crank-nicolson") and n == 1 and not cplx and not cfg.get("alpha"):
        # converged iteration is close to the exact scheme value: |x_out - x*| <= |q/(1-q)| * |x_out - x_prev|,
        # and the accepted change is below maxerror*sqrt(size)
        z = a * dt
        q = z if name == "implicit" else z / 2
        for i in range(len(u)):
            exact_num = u[i] if name == "implicit" else (1 + z / 2) * u[i]
            # (x_out*(1-q) - exact_num)^2 <= q^2 * size * maxerror^2
            lhs = state.data[i] * (1 - q) - exact_num
            env.prove(f"converged-state-within-q/(1-q)*maxerror-of-exact-factor:{i}", lhs * lhs <= q * q * 2 * maxerror * maxerror * (1 + TOL) + 1e-18)
    if calls is not None and name in ("euler", "runge-kutta"):
        # stage times
        per = {"euler": [0], "runge-kutta": [0, F(1, 2), F(1, 2), 1]}[name]
        env.prove("number-of-rate-evaluations", len(calls) == n * len(per))
        if len(calls) == n * len(per):
            for k in range(n):
                for j, frac in enumerate(per):
                    env.close(f"stage-time:{j}", calls[k * len(per) + j][1], t0 + k * dt + frac * dt, scale=8)
    env.reach(hints=hints)


# ---- Runge-Kutta-Fehlberg error estimator ------------------------------------------------

FEHLBERG_A = [0, F(1, 4), F(3, 8), F(12, 13), 1, F(1, 2)]
FEHLBERG_B = [
    [],
    [F(1, 4)],
    [F(3, 32), F(9, 32)],
    [F(1932, 2197), F(-7200, 2197), F(7296, 2197)],
    [F(439, 216), -8, F(3680, 513), F(-845, 4104)],
    [F(-8, 27), 2, F(-3544, 2565), F(1859, 4104), F(-11, 40)],
]
FEHLBERG_C4 = [F(25, 216), 0, F(1408, 2565), F(2197, 4104), F(-1, 5), 0]
FEHLBERG_C5 = [F(16, 135), 0, F(6656, 12825), F(28561, 56430), F(-9, 50), F(2, 55)]


def scenario_rkf(env, cfg):
    _prepare(env.sym)
    backend = cfg["backend"]
    u, a, b, c, dt, t0 = _inputs(env, cfg)
    eq = _make_pde(a, b, c, None, False)
    state = _state(env, u, False)
    from pde.solvers.runge_kutta import RungeKuttaSolver

    solver = RungeKuttaSolver(eq, backend=backend, adaptive=True)
    est = solver._make_single_step_error_estimate(state)
    new, err = est(state.data.copy(), t0, dt)
    f = lambda x, t: a * x + b * t + c * t * t  # noqa: E731
    y4s, y5s = [], []
    for x in u:
        ks = []
        for s in range(6):
            xs = x
            for j, bj in enumerate(FEHLBERG_B[s]):
                xs = xs + float(bj) * ks[j]
            ks.append(dt * f(xs, t0 + float(FEHLBERG_A[s]) * dt))
        y4s.append(x + O.total(float(cw) * k for cw, k in zip(FEHLBERG_C4, ks)))
        y5s.append(x + O.total(float(cw) * k for cw, k in zip(FEHLBERG_C5, ks)))
    env.observe("new", new)
    env.observe("err", err)
    env.close("rkf:new-state=4th-order-formula-of-Fehlberg-table", list(new), y4s, scale=64)
    d = [abs(y5 - y4) for y4, y5 in zip(y4s, y5s)]
    # the estimate is max_i |y5_i - y4_i|: it dominates every cell's difference and equals one of them
    if not cfg.get("autonomous"):
        env.prove("rkf:error-estimate=max|y5-y4|", O.land(*[err >= di - 64 * TOL for di in d], O.lor(*[abs(err - di) <= 64 * TOL for di in d])))
    if cfg.get("autonomous"):
        env.assume(O.land(a >= -1, a <= 1))
        z = a * dt
        t4 = 1 + z + z * z / 2 + z * z * z / 6 + z * z * z * z / 24
        for i, x in enumerate(u):
            # P(z) - T4(z) = O(z^5): bounded by |z|^5 * |u| for |z| <= 1
            dev = new[i] - t4 * x
            z5 = z * z * z * z * z
            env.prove(f"rkf:agrees-with-exp-to-4th-order:{i}", dev * dev <= z5 * z5 * x * x * (1 + 1e-6) + 1e-18)
    env.reach()


# ---- adaptive steppers -------------------------------------------------------------------


def scenario_adaptive(env, cfg):
    _prepare(env.sym)
    name, backend = cfg["solver"], cfg["backend"]
    lam = _val(env, cfg, "lam", 1 / 16, 2)
    u = [_val(env, cfg, f"u{i}", -4, 4) for i in range(2)]
    dt0 = env.real("dt0", 1 / 64, 1 / 2)
    t0 = env.real("t0", -4, 4)
    T = env.real("T", 1 / 64, 1)
    tol = _val(env, cfg, "tol", 1 / 1024, 1 / 4)
    calls = [] if (env.sym or backend == "numpy") else None
    eq = _make_pde(-lam, 0, 0, calls, False, max_calls=cfg.get("max_calls", 12))
    state = _state(env, u, False)
    smod, scls = SOLVERS[name]
    solver = getattr(importlib.import_module(smod), scls)(eq, backend=backend, adaptive=True, tolerance=tol)
    stepper = solver.make_stepper(state, dt0)
    t_end = t0 + T
    t_reached = stepper(state, t0, t_end)
    env.observe("t", t_reached)
    env.close("adaptive:lands-exactly-on-t_end", t_reached, t_end, scale=8)
    env.prove("adaptive:dt-within-[dt_min,dt_max]", O.land(solver.info["dt"] >= solver.dt_min, solver.info["dt"] <= solver.dt_max))
    env.prove("adaptive:steps>=1", solver.info["steps"] >= 1)
    # dissipative problem: |u| never grows
    for i in range(2):
        env.prove(f"adaptive:dissipative-state-does-not-grow:{i}", abs(state.data[i]) <= abs(u[i]) * (1 + TOL) + 1e-12)
    env.reach()


def _case(name, scenario, **cfg):
    return {"name": name, "scenario": scenario, "cfg": cfg}


def cases(tier, seed):
    q = tier == "quick"
    out = []
    pts = [{"a": -1.5, "dt": 0.25, "t0": 0.3}, {"a": 0.75, "dt": 0.1, "t0": -1.7}]
    cpts = [{"ar": -0.5, "ai": 1.25, "dt": 0.25, "t0": 0.3}, {"ar": 0.3, "ai": -2, "dt": 0.1, "t0": 0}]
    if not q:
        pts.append({"a": 2, "dt": 1 / 3, "t0": 4})
        cpts.append({"ar": 0, "ai": 1.7, "dt": 0.4, "t0": 1})
    for backend in ("numpy", "numba"):
        for s in ("euler", "runge-kutta", "adams-bashforth"):
            # fully symbolic (a, dt, t0, u, b, c): polynomial identities decided by nlsat
            out.append(_case(f"{backend}:{s}:n=1:symbolic-a-dt-t", "scenario_fixed", solver=s, backend=backend, n=1))
            out.append(_case(f"{backend}:{s}:n=2:autonomous:symbolic-a-dt", "scenario_fixed", solver=s, backend=backend, n=2, autonomous=True))
            for k, fx in enumerate(pts):
                for n in (2, 3) if q else (2, 3, 4):
                    out.append(_case(f"{backend}:{s}:n={n}:time-dependent:pt{k}", "scenario_fixed", solver=s, backend=backend, n=n, fix=fx))
            for k, fx in enumerate(cpts):
                out.append(_case(f"{backend}:{s}:n=2:complex:pt{k}", "scenario_fixed", solver=s, backend=backend, n=2, complex=True, fix=fx))
            for split in ((2, 1), (1, 2)) if (q and s == "adams-bashforth") else ((2, 1),) if q else ((2, 1), (1, 2), (2, 2)):
                out.append(_case(f"{backend}:{s}:split-run:{split[0]}+{split[1]}:off-lattice-interrupt:pt0", "scenario_fixed", solver=s, backend=backend, n=sum(split), split=list(split), fix=pts[0]))
        for s in ("implicit", "crank-nicolson"):
            for k, fx in enumerate(pts):
                for mi in (2,) if q else (2, 3):
                    out.append(_case(f"{backend}:{s}:maxiter={mi}:time-dependent:pt{k}", "scenario_fixed", solver=s, backend=backend, n=1, maxiter=mi, fix=fx))
                out.append(_case(f"{backend}:{s}:maxiter=2:autonomous:pt{k}", "scenario_fixed", solver=s, backend=backend, n=1, maxiter=2, autonomous=True, maxerror="sym", fix=fx))
            for k, fx in enumerate(cpts):
                out.append(_case(f"{backend}:{s}:maxiter=2:complex:pt{k}", "scenario_fixed", solver=s, backend=backend, n=1, maxiter=2, complex=True, autonomous=True, fix=fx, maxerror="sym"))
        out.append(_case(f"{backend}:crank-nicolson:alpha=0.25:maxiter=2", "scenario_fixed", solver="crank-nicolson", backend=backend, n=1, maxiter=2, alpha=0.25, fix=pts[0], maxerror="sym"))
        for k, fx in enumerate(pts):
            out.append(_case(f"{backend}:rkf45:time-dependent:pt{k}", "scenario_rkf", backend=backend, fix=fx))
        out.append(_case(f"{backend}:rkf45:autonomous:order", "scenario_rkf", backend=backend, autonomous=True, fix={"dt": 1, "t0": 0, "u0": 1, "u1": -2}))
        for s in ("euler", "runge-kutta"):
            c = _case(f"{backend}:adaptive:{s}", "scenario_adaptive", solver=s, backend=backend, max_calls=8 if q else 14, fix={"lam": 1.5, "u0": 1, "u1": -2.5, "tol": 0.01})
            c["allowed"] = ["BoundReached", "RuntimeError"]
            c["optional"] = True  # exploration may stop at the time cap; explored paths are still checked
            c["bounds"] = {"tmax": 60.0, "query_timeout_ms": 3000, "path_timeout": 45.0}
            out.append(c)
    return out


CANARIES = [
    {
        "name": "rk4-last-stage-at-half-step",
        "case": "numpy:runge-kutta:n=2:time-dependent:pt0",
        "patch": [("pde.solvers.runge_kutta:RungeKuttaSolver._make_single_step_fixed_dt", "k4 = dt * rhs(state_data + k3, t + dt)", "k4 = dt * rhs(state_data + k3, t + 0.5 * dt)")],
        "expect": "state=scheme|stage-time",
    },
    {
        "name": "rkf-tableau-coefficient",
        "case": "numpy:rkf45:time-dependent:pt0",
        "patch": [("pde.solvers.runge_kutta:RungeKuttaSolver._make_single_step_error_estimate", "b43 = 7296 / 2197", "b43 = 7296 / 2179")],
        "expect": "rkf",
    },
    {
        "name": "implicit-convergence-test-not-conjugated",
        "case": "numpy:implicit:maxiter=2:complex:pt0",
        "patch": [("pde.solvers.implicit:ImplicitSolver._make_single_step_fixed_dt_deterministic", "err += (nx.conj(diff) * diff).real", "err += (diff * diff).real")],
        "expect": "convergence|state",
    },
    {
        "name": "numba-ab-forgets-previous-state",
        "case": "numba:adams-bashforth:n=2:time-dependent:pt0",
        "patch": [("pde.backends.numba._solvers:_make_adams_bashforth_stepper", "state_prev[:] = state_data  # save the previous state", "pass")],
        "expect": "state=scheme",
    },
]
