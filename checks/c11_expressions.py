"""C11 — compiling an expression preserves its meaning (per-program translation validation).

For every program (expression text) the real pipeline text -> sympy (simplify) -> printer ->
lambdify (-> numba) produces a Python callable; that callable runs on *symbolic arguments*.  The
reference is an independent evaluator in this file that walks Python's own ``ast`` of the text
(no sympy).  z3 decides equality for all well-conditioned arguments; transcendental functions are
uninterpreted on both sides (plus the Pythagorean axiom).  When the solver cannot close a program
because of that abstraction, the program is compared numerically on fixed sample points: agreement
is recorded as *abstraction-inconclusive* (neither pass nor violation), a disagreement is a
violation that replays concretely.
"""

from __future__ import annotations

import ast
import importlib
import itertools
import math
import random
import re

import numpy as np

from symx import ops as O
from symx.values import SymReal, install_float_shadow

from . import _ops as X

ID = "C11"
LEVEL = "translation_validation"
FUNCTIONS = [
    "pde.tools.expressions:parse_expr_guarded",
    "pde.tools.expressions:ExpressionBase.__init__",
    "pde.tools.expressions:ExpressionBase._get_function",
    "pde.tools.expressions:ExpressionBase.get_function",
    "pde.tools.expressions:ExpressionBase.__call__",
    "pde.tools.expressions:ScalarExpression.differentiate",
    "pde.tools.expressions:ScalarExpression.derivatives",
    "pde.tools.expressions:TensorExpression.__init__",
    "pde.backends.numpy.backend:NumpyBackend.make_expression_function",
    "pde.backends.numba.backend:NumbaBackend.make_expression_function",
    "pde.fields.scalar:ScalarField.from_expression",
    "pde.fields.vectorial:VectorField.from_expression",
]
ASSUMPTIONS = [
    "programs: the supported grammar (+ - * /, integer and half-integer powers, unary minus, parentheses, comparisons via heaviside, abs/sign, constants, user functions, indexed variables, nested calls of sin cos tan exp log sqrt tanh hypot) generated exhaustively to depth 2 over two variables and sampled (VERIF_SEED) at depth 3, plus every expression literal found in /repo/tests/tools/test_expressions.py that parses in the reference evaluator",
    "arguments a, b in [1/4, 4] (positive: logs, square roots and quotients of the generated programs stay well-conditioned); every symbolic denominator is assumed non-zero",
    "transcendental functions are uninterpreted (congruence) with cos^2+sin^2 = 1; programs the solver cannot close under this abstraction are compared numerically on 12 fixed points and at the model point and reported as abstraction-inconclusive when they agree",
    "derivatives: reference by forward-mode dual numbers through the same reference evaluator",
]
STUBS = ["sympy (parse_expr, simplify, lambdify) runs concretely per program; only its output function runs on symbols", "numba function = python source of the generated function (NUMBA_DISABLE_JIT=1); replays use the JIT build"]
OUTSIDE = ["text outside the grammar", "array-valued constants beyond 1-d", "arguments where the formula is ill-conditioned (near poles / branch points)"]
BOUNDS = {"max_paths": 400, "tmax": 900.0, "query_timeout_ms": 8000, "path_timeout": 600.0}
EXPLANATION = "translation validation per program: compiled callable vs independent AST evaluator on symbolic arguments"
SC = 4096


def bounds_text(tier):
    return "~300 programs (quick) / ~2000 (thorough); 3 implementation routes + first derivatives per program"


# ----------------------------------------------------------------------------- reference evaluator


class Dual:
    """forward-mode dual number over any scalar type (float or SymReal)"""

    def __init__(self, v, d):
        self.v, self.d = v, d

    @staticmethod
    def lift(x):
        return x if isinstance(x, Dual) else Dual(x, 0)

    def __add__(self, o):
        o = Dual.lift(o)
        return Dual(self.v + o.v, self.d + o.d)

    __radd__ = __add__

    def __sub__(self, o):
        o = Dual.lift(o)
        return Dual(self.v - o.v, self.d - o.d)

    def __rsub__(self, o):
        return Dual.lift(o) - self

    def __mul__(self, o):
        o = Dual.lift(o)
        return Dual(self.v * o.v, self.d * o.v + self.v * o.d)

    __rmul__ = __mul__

    def __truediv__(self, o):
        o = Dual.lift(o)
        return Dual(self.v / o.v, (self.d * o.v - self.v * o.d) / (o.v * o.v))

    def __rtruediv__(self, o):
        return Dual.lift(o) / self

    def __neg__(self):
        return Dual(-self.v, -self.d)

    def __pos__(self):
        return self


def _f(name, x):
    """elementary function on float / SymReal"""
    if isinstance(x, SymReal):
        return getattr(x, {"asin": "arcsin", "acos": "arccos", "atan": "arctan"}.get(name, name))()
    return {"sin": math.sin, "cos": math.cos, "tan": math.tan, "exp": math.exp, "log": math.log, "sqrt": math.sqrt, "tanh": math.tanh, "asin": math.asin, "acos": math.acos, "atan": math.atan}[name](x)


def _pow(x, n):
    """x ** n for rational n with denominator 1 or 2"""
    from fractions import Fraction

    q = Fraction(n).limit_denominator(1000)
    if q.denominator == 1:
        k = q.numerator
        r = 1
        for _ in range(abs(k)):
            r = r * x
        return r if k >= 0 else 1 / r
    if q.denominator == 2:
        s = _fun("sqrt", x)
        return _pow(s, q.numerator)
    raise ValueError(f"power {n}")


def _fun(name, x):
    if isinstance(x, Dual):
        v = x.v
        if name == "sin":
            return Dual(_f("sin", v), _f("cos", v) * x.d)
        if name == "cos":
            return Dual(_f("cos", v), -_f("sin", v) * x.d)
        if name == "tan":
            t = _f("sin", v) / _f("cos", v)
            return Dual(t, (1 + t * t) * x.d)
        if name == "exp":
            e = _f("exp", v)
            return Dual(e, e * x.d)
        if name == "log":
            return Dual(_f("log", v), x.d / v)
        if name == "sqrt":
            s = _f("sqrt", v)
            return Dual(s, x.d / (2 * s))
        if name == "tanh":
            t = _f("tanh", v)
            return Dual(t, (1 - t * t) * x.d)
        if name == "atan":
            return Dual(_f("atan", v), x.d / (1 + v * v))
        if name in ("asin", "acos"):
            s = _f("sqrt", 1 - v * v)
            return Dual(_f(name, v), (x.d / s) if name == "asin" else -(x.d / s))
        raise ValueError(name)
    if name == "tan":
        return _f("sin", x) / _f("cos", x)
    return _f(name, x)


def _heaviside(x, h0=0.5):
    if isinstance(x, Dual):
        return Dual(_heaviside(x.v, h0), 0)
    if isinstance(x, SymReal):
        import z3

        from symx.values import as_term

        return SymReal(z3.If(x.t < 0, z3.RealVal(0), z3.If(x.t > 0, z3.RealVal(1), as_term(h0))))
    return 0.0 if x < 0 else (1.0 if x > 0 else h0)


def _abs(x):
    if isinstance(x, Dual):
        s = _sign(x.v)
        return Dual(abs(x.v), s * x.d)
    return abs(x)


def _sign(x):
    if isinstance(x, Dual):
        return Dual(_sign(x.v), 0)
    if isinstance(x, SymReal):
        return x.sign()
    return (x > 0) - (x < 0)


def ref_eval(text, env_vars, user_funcs=None):
    """value of the written formula: walks python's ast of the text"""
    tree = ast.parse(text.replace("^", "**"), mode="eval")
    user_funcs = user_funcs or {}

    def ev(n):
        if isinstance(n, ast.Expression):
            return ev(n.body)
        if isinstance(n, ast.Constant):
            return n.value
        if isinstance(n, ast.Name):
            if n.id == "pi":
                return math.pi
            return env_vars[n.id]
        if isinstance(n, ast.UnaryOp):
            v = ev(n.operand)
            return -v if isinstance(n.op, ast.USub) else v
        if isinstance(n, ast.BinOp):
            if isinstance(n.op, ast.Pow):
                base = ev(n.left)
                ex = ev(n.right)
                if isinstance(ex, (int, float)):
                    return _pow(base, ex)
                raise ValueError("symbolic exponent")
            l, r = ev(n.left), ev(n.right)
            if isinstance(n.op, ast.Add):
                return l + r
            if isinstance(n.op, ast.Sub):
                return l - r
            if isinstance(n.op, ast.Mult):
                return l * r
            if isinstance(n.op, ast.Div):
                return l / r
            raise ValueError(type(n.op).__name__)
        if isinstance(n, ast.Subscript):
            return ev(n.value)[ev(n.slice)]
        if isinstance(n, ast.Call):
            fn = n.func.id
            args = [ev(a) for a in n.args]
            if fn in ("sin", "cos", "tan", "exp", "log", "sqrt", "tanh", "asin", "acos", "atan"):
                return _fun(fn, args[0])
            if fn in ("heaviside", "Heaviside"):
                return _heaviside(*args)
            if fn in ("abs", "Abs"):
                return _abs(args[0])
            if fn == "sign":
                return _sign(args[0])
            if fn == "hypot":
                return _fun("sqrt", args[0] * args[0] + args[1] * args[1])
            if fn in user_funcs:
                return user_funcs[fn](*args)
            raise ValueError(f"function {fn}")
        raise ValueError(type(n).__name__)

    return ev(tree)


# ----------------------------------------------------------------------------- program generation

LEAVES = ["a", "b", "2", "0.5", "k"]
UNARY = ["asin(sin({}))", "atan(tan({}))", "acos(cos({}))", "atan({})", "-({})", "sin({})", "cos({})", "exp({})", "log({})", "sqrt({})", "tanh({})", "({})**2", "({})**3", "({})**0.5", "({})**-1", "({})**1.5", "abs({})", "heaviside({} - 1, 0.5)", "tan({})"]
BINARY = ["({}) + ({})", "({}) - ({})", "({}) * ({})", "({}) / ({})", "hypot({}, {})", "({}) - ({}) * ({})"]


def programs(tier, seed):
    progs = []
    d1 = []
    for u in UNARY:
        for l in LEAVES[:3]:
            d1.append(u.format(l))
    for bop in BINARY[:5]:
        for x, y in itertools.product(LEAVES, repeat=2):
            d1.append(bop.format(x, y))
    progs += d1
    rnd = random.Random(seed)
    # depth 2: unary over depth-1 and binary over (depth-1, leaf) - deterministic subset
    d2 = []
    for u in UNARY:
        for e in d1:
            d2.append(u.format(e))
    for bop in BINARY:
        for e in d1:
            for l in LEAVES[:3]:
                if bop.count("{}") == 2:
                    d2.append(bop.format(e, l))
                    d2.append(bop.format(l, e))
                else:
                    d2.append(bop.format(l, e, "a"))
    rnd.shuffle(d2)
    n2 = 500 if tier == "quick" else 3000
    progs += d2[:n2]
    # depth 3 sampled
    n3 = 150 if tier == "quick" else 1500
    for _ in range(n3):
        e1, e2 = rnd.choice(d2), rnd.choice(d1)
        progs.append(rnd.choice(BINARY[:5]).format(e1, e2))
    # hand-written programs exercising precedence, renaming, argument order
    progs += [
        "a - b - a", "a / b / 2", "a - (b - a)", "a / (b / 2)", "-a**2", "(-a)**2", "2**-1 * a", "a**b" if False else "a * b**-2",
        "heaviside(a - b, 0.5) * a + heaviside(b - a, 0.5) * b", "heaviside(a - 1)" if False else "heaviside(a - 1, 1)",
        "sin(a)**2 + cos(a)**2", "sin(a) * cos(b) - cos(a) * sin(b)", "exp(a) * exp(b)", "log(a * b)", "sqrt(a) * sqrt(b)", "exp(log(a))",
        "hypot(a, b) - hypot(b, a)", "tanh(a) - sin(b) / cos(b)", "a * k + k**2", "abs(a - b) + abs(b - a)", "sign(a - 2) * a",
        "1 / (1 + a**2)", "(a + b) / (a - b + 5)", "a**0.5 * b**1.5", "3 * a - 2 * b + 1", "pi * a",
    ]
    seen, out = set(), []
    for p in progs:
        if p not in seen:
            seen.add(p)
            out.append(p)
    return out


def test_suite_programs():
    """expression literals of the repository's own expression tests that the reference evaluator understands"""
    out = []
    try:
        src = open("/repo/tests/tools/test_expressions.py").read()
    except OSError:
        return out
    for m in re.finditer(r'(?:ScalarExpression|parse_number|evaluate)\(\s*"([^"]+)"', src):
        t = m.group(1)
        try:
            ref_eval(t, {"a": 1.3, "b": 0.7, "x": 1.1, "y": 0.4, "t": 0.3, "c": 0.9, "k": 1.75})
        except Exception:  # noqa: BLE001
            continue
        out.append(t)
    return sorted(set(out))


SAMPLES = [(0.3 + 0.29 * i, 3.9 - 0.31 * i) for i in range(12)]
KVAL = 1.75


def _numeric_ok(impl, text, variables, user_funcs, pts):
    for a, b in pts:
        vals = {"a": a, "b": b, "x": a, "y": b, "t": 0.3, "c": 0.9, "k": KVAL}
        try:
            want = ref_eval(text, vals, user_funcs)
            got = float(impl(*[vals[v] for v in variables]))
        except (ZeroDivisionError, ValueError, OverflowError):
            continue
        if not (math.isfinite(want) and math.isfinite(got)):
            continue
        if abs(got - want) > 1e-9 * max(1.0, abs(want)):
            return False, (a, b, got, want)
    return True, None


def scenario_programs(env, cfg):
    from pde.tools.expressions import ScalarExpression

    X.prepare(env.sym)
    env.nonlinear()
    a = env.real("a", 0.25, 4)
    b = env.real("b", 0.25, 4)
    base_vars = {"a": a, "b": b, "x": a, "y": b, "t": env.const(0.3) if env.sym else 0.3, "c": env.const(0.9) if env.sym else 0.9, "k": KVAL}
    n_closed = n_abs = n_prog_routes = 0
    for text in cfg["programs"]:
        variables = sorted({n.id for n in ast.walk(ast.parse(text, mode="eval")) if isinstance(n, ast.Name)} & {"a", "b", "x", "y", "t", "c"})
        consts = {"k": KVAL} if re.search(r"\bk\b", text) else None
        try:
            expr = ScalarExpression(text, signature=variables or None, consts=consts)
        except Exception as e:  # noqa: BLE001 - a program the package rejects is not a mistranslation
            env.note(f"rejected:{text}", str(e)[:80])
            continue
        routes = {"call": expr}
        for be in ("numpy", "numba"):
            try:
                routes[be] = expr.get_function(backend=be)
            except Exception as e:  # noqa: BLE001
                env.note(f"no-{be}:{text}", str(e)[:80])
        if env.sym:
            try:
                want = ref_eval(text, base_vars)
            except (ValueError, ZeroDivisionError):
                continue
        for rname, impl in routes.items():
            tag = f"{rname}:{text}"
            if not env.sym:
                ok, bad = _numeric_ok(impl, text, variables, None, [(eval_frac(env.values.get("a", "1")), eval_frac(env.values.get("b", "1")))] + SAMPLES)
                env.prove(tag, ok)
                continue
            try:
                got = impl(*[base_vars[v] for v in variables])
            except ZeroDivisionError:
                continue
            except Exception as e:  # noqa: BLE001 - an error is not a wrong value; recorded
                env.note(f"error:{tag}", f"{type(e).__name__}: {e}"[:100])
                continue
            try:
                verdict, _m = env.check_close(got, want, scale=SC)
            except TypeError as e:  # nan / inf constants: the formula is not well-conditioned on the box
                env.note(f"skipped:{tag}", str(e)[:80])
                continue
            n_prog_routes += 1
            if verdict == "unsat":
                env.close(tag, got, want, scale=SC)
                n_closed += 1
            else:
                ok, bad = _numeric_ok(impl, text, variables, None, SAMPLES)
                if ok:
                    n_abs += 1
                    env.prove(f"abstraction-inconclusive:{tag}", True, info=True)
                else:
                    env.note(f"numeric-disagreement:{tag}", str(bad))
                    env.prove(tag, False)
        # derivatives with respect to the first variable
        if variables and env.sym and cfg.get("derivatives", True):
            v = variables[0]
            try:
                dexpr = expr.differentiate(v)
                dvars = dict(base_vars)
                dvars[v] = Dual(base_vars[v], 1)
                dwant = ref_eval(text, dvars)
                dwant = dwant.d if isinstance(dwant, Dual) else 0
                dgot = dexpr(*[base_vars[x] for x in variables])
            except Exception as e:  # noqa: BLE001 (e.g. DiracDelta of a differentiated heaviside is not defined: an error, not a wrong value)
                env.note(f"error:d/d{v}:{text}", f"{type(e).__name__}: {e}"[:100])
                continue
            try:
                verdict, _m = env.check_close(dgot, dwant, scale=SC)
            except TypeError:
                continue
            tag = f"d/d{v}:{text}"
            if verdict == "unsat":
                env.close(tag, dgot, dwant, scale=SC)
                n_closed += 1
            else:
                ok = _numeric_derivative_ok(dexpr, text, variables, v)
                if ok:
                    n_abs += 1
                    env.prove(f"abstraction-inconclusive:{tag}", True, info=True)
                else:
                    env.prove(tag, False)
        elif variables and not env.sym and cfg.get("derivatives", True):
            v = variables[0]
            try:
                dexpr = expr.differentiate(v)
                env.prove(f"d/d{v}:{text}", _numeric_derivative_ok(dexpr, text, variables, v))
            except Exception:  # noqa: BLE001
                pass
    env.note("closed_by_solver", n_closed)
    env.note("abstraction_inconclusive", n_abs)
    env.note("program_routes", n_prog_routes)
    env.note("programs", len(cfg["programs"]))
    env.observe("n", n_closed)


def eval_frac(s):
    from fractions import Fraction

    return float(Fraction(s))


def _numeric_derivative_ok(dexpr, text, variables, v):
    for a, b in SAMPLES:
        vals = {"a": a, "b": b, "x": a, "y": b, "t": 0.3, "c": 0.9, "k": KVAL}
        dv = dict(vals)
        dv[v] = Dual(vals[v], 1)
        try:
            want = ref_eval(text, dv)
            want = want.d if isinstance(want, Dual) else 0.0
            got = float(dexpr(*[vals[x] for x in variables]))
        except Exception:  # noqa: BLE001
            continue
        if math.isfinite(want) and math.isfinite(got) and abs(got - want) > 1e-8 * max(1.0, abs(want)):
            return False
    return True


def scenario_fields(env, cfg):
    """field construction from expressions: coordinate aliases, per-component expressions, constants"""
    import pde

    X.prepare(env.sym)
    grid = pde.CartesianGrid([[0.5, 2.5], [1, 2]], [2, 2])
    xs, ys = grid.cell_coords[..., 0], grid.cell_coords[..., 1]
    k = env.real("k", 0.25, 4)
    for text in ["x**2 + y", "x * y - 0.5", "sin(x) * y", "k * x - y / k", "heaviside(x - 1.5, 0.5) * y", "hypot(x, y)"]:
        consts = {"k": KVAL} if re.search(r"\bk\b", text) else None
        f = pde.ScalarField.from_expression(grid, text, consts=consts)
        want = np.empty(grid.shape)
        for idx in np.ndindex(*grid.shape):
            want[idx] = ref_eval(text, {"x": float(xs[idx]), "y": float(ys[idx]), "k": KVAL})
        env.prove(f"ScalarField.from_expression:{text}", bool(np.allclose(f.data, want, rtol=1e-12, atol=1e-12)))
    vf = pde.VectorField.from_expression(grid, ["x - y", "x * y"])
    env.prove("VectorField.from_expression:components-in-order", bool(np.allclose(vf.data[0], xs - ys)) and bool(np.allclose(vf.data[1], xs * ys)))
    pg = pde.PolarSymGrid((1, 3), 2)
    f = pde.ScalarField.from_expression(pg, "r**2")
    env.prove("polar-axis-name", bool(np.allclose(f.data, pg.axes_coords[0] ** 2)))
    # user functions and indexed variables
    from pde.tools.expressions import ScalarExpression

    e = ScalarExpression("myf(a) + v[0] * v[1]", signature=["a", "v"], user_funcs={"myf": lambda z: 2 * z + 1}, allow_indexed=True)
    got = e(0.5, np.array([2.0, 3.0]))
    env.prove("user-function-and-indexed-variable", abs(float(got) - (2.0 + 6.0)) < 1e-12)
    got2 = e.get_function(backend="numpy")(0.5, np.array([2.0, 3.0]))
    env.prove("user-function-and-indexed-variable:numpy-function", abs(float(got2) - 8.0) < 1e-12)
    # several constants: names must be bound to their own values on every backend
    e2 = ScalarExpression("kk * a + cc", signature=["a"], consts={"kk": 3.0, "cc": 0.5})
    for be in ("numpy", "numba"):
        fn = e2.get_function(backend=be)
        env.prove(f"constants-bound-to-their-names:{be}", abs(float(fn(2.0)) - 6.5) < 1e-12)
    env.prove("constants-bound-to-their-names:call", abs(float(e2(2.0)) - 6.5) < 1e-12)


def coverage_extra(case_results):
    """translation-validation keys for the evidence file"""
    progs = sum(int(r.get("notes", {}).get("programs", 0)) for r in case_results)
    routes = sum(int(r.get("notes", {}).get("program_routes", 0)) for r in case_results)
    closed = sum(int(r.get("notes", {}).get("closed_by_solver", 0)) for r in case_results)
    absn = sum(int(r.get("notes", {}).get("abstraction_inconclusive", 0)) for r in case_results)
    return {"programs": max(progs, 1), "program_route_pairs": routes, "closed_by_solver_for_all_arguments": closed, "abstraction_inconclusive_numerically_agreeing": absn, "disagreements_checked": absn}


def cases(tier, seed):
    progs = programs(tier, seed)
    extra = test_suite_programs()
    out = []
    chunk = 12
    for i in range(0, len(progs), chunk):
        out.append({"name": f"programs:{i // chunk:03d}", "scenario": "scenario_programs", "cfg": {"programs": progs[i : i + chunk]}, "validate_paths": 0, "optional": False})
    for i in range(0, len(extra), chunk):
        out.append({"name": f"test-suite-programs:{i // chunk:03d}", "scenario": "scenario_programs", "cfg": {"programs": extra[i : i + chunk]}, "validate_paths": 0})
    out.append({"name": "fields-and-constants", "scenario": "scenario_fields", "cfg": {}, "validate_paths": 0})
    return out


CANARIES = [
    {
        "name": "simplify-cancels-inverse-functions",
        "case": "programs:000",
        "cfg": {"programs": ["sqrt((a - 2)**2) + b", "abs(a - 2) * b"]},
        "patch": [("pde.tools.expressions:ExpressionBase.__init__", "self._sympy_expr = sympy.simplify(expression)", "self._sympy_expr = sympy.simplify(expression).replace(sympy.Abs, lambda arg: arg).replace(lambda e: e.is_Pow and e.exp == sympy.Rational(1, 2) and e.base.is_Pow and e.base.exp == 2, lambda e: e.base.base)")],
        "expect": "call|numpy|numba",
    },
]
