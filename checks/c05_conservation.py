"""C05 — discrete conservation: no-flux Laplacian and divergence integrate to zero."""

from __future__ import annotations

import importlib

import numpy as np

from symx import ops as O
from symx.values import install_float_shadow

from . import _ops as X
from . import c02_boundaries as B

ID = "C05"
LEVEL = "model_checking"
FUNCTIONS = [
    "pde.backends.numba.operators.cartesian:make_laplace",
    "pde.backends.numba.operators.cartesian:make_divergence",
    "pde.backends.numba.operators.polar_sym:make_laplace",
    "pde.backends.numba.operators.spherical_sym:make_laplace",
    "pde.backends.numba.operators.spherical_sym:make_divergence",
    "pde.backends.numba.operators.cylindrical_sym:make_laplace",
    "pde.grids.spherical:SphericalSymGridBase.cell_volume_data",
    "pde.grids.cylindrical:CylindricalSymGrid.cell_volume_data",
    "pde.grids.base:GridBase.integrate",
    "pde.grids.base:GridBase.cell_volumes",
    "pde.fields.datafield_base:DataFieldBase.apply_operator",
    "pde.pdes.diffusion:DiffusionPDE.evolution_rate",
    "pde.pdes.cahn_hilliard:CahnHilliardPDE.evolution_rate",
    "pde.solvers.euler:EulerSolver._make_single_step_fixed_dt",
    "pde.solvers.runge_kutta:RungeKuttaSolver._make_single_step_fixed_dt",
    "pde.solvers.adams_bashforth:AdamsBashforthSolver._make_inner_stepper",
    "pde.trackers.trackers:MaterialConservationTracker.handle",
]
ASSUMPTIONS = [
    "geometry symbolic through the real constructors (spacings in [1/16, 2], origins in [-2, 2], inner radius in [1/4, 3] or 0); all field entries symbolic in [-4, 4]",
    "boundary conditions imposed by the real setters: periodic, zero derivative (scalar), vanishing value / vanishing normal component (vector)",
    "integral = sum(cell_volumes * data) computed by the real grid.integrate / cell_volumes (so a wrong volume formula breaks the identity)",
    "pi is a symbol with 3.1415926 < pi < 3.1415927",
    "simulation clause by induction: one real step of each explicit solver with symbolic dt and state conserves the integral exactly; implicit and Crank-Nicolson steps are unrolled to maxiter = 2",
    "the 9-point Cartesian Laplacian (corner_weight != 0) is checked on grids that are periodic along both axes or non-periodic along both (its corner ghost cells are interpolated by the kernel); the mixed periodic/non-periodic 9-point case is reported separately as informational",
]
STUBS = B.STUBS + ["np.pi -> symbol pi"]
OUTSIDE = ["non-conservative spherical variants (excluded by the property)", "round-off drift over many steps", "adaptive step rejection", "grids with more than 3 cells per axis", "one Runge-Kutta step on the cylindrical grid with a hole (residual polynomial of degree 4 with float-rounding-sized coefficients not bounded by z3 within 60 s; Euler and Adams-Bashforth steps on that grid are decided)"]
BOUNDS = {"max_paths": 200, "tmax": 600.0, "query_timeout_ms": 30000}
EXPLANATION = "per grid class/periodicity/hole configuration: NRA validity query sum_i V_i (L u)_i = 0 for all field contents and geometries"
SC = 4096


def bounds_text(tier):
    return "shapes with 2-3 cells per axis; Cartesian 1-3 axes with every periodicity pattern; polar/spherical/cylindrical with and without hole"


class _Pi:
    pass


_prep = {}


def _prepare(env):
    B._prepare(env.sym)
    if not env.sym:
        return
    pi = env.real("pi", 3.1415926, 3.1415927)
    tm = importlib.import_module("pde.trackers.trackers")
    tm.np = X._NpProxy(np)
    for name in ("pde.grids.spherical", "pde.grids.cylindrical", "pde.grids.base", "pde.grids.coordinates.polar", "pde.grids.coordinates.spherical", "pde.grids.coordinates.cylindrical", "pde.grids.coordinates.base"):
        m = importlib.import_module(name)
        if not isinstance(m.np, X._NpProxy):
            m.np = X._NpProxy(np)
        m.np.pi = pi
        install_float_shadow(m)


def _integral(env, grid, data):
    """sum of cell_volumes * data through the real grid API"""
    return grid.integrate(data)


def scenario_laplace(env, cfg):
    import pde

    _prepare(env)
    env.nonlinear()
    spec = dict(cfg["grid"], geometry=cfg.get("geometry", "sym"), hmin=1 / 16, hmax=2, rin_lo=0.25)
    grid, geom = X.make_grid(env, spec)
    u = env.array("u", grid.shape, -4, 4)
    f = pde.ScalarField(grid, u, dtype=object if env.sym else float)
    opts = cfg.get("opts", {})
    lap = f.apply_operator("laplace", bc=cfg.get("bc", "auto_periodic_neumann"), backend="numba", **opts)
    total = _integral(env, grid, lap.data)
    scale = SC
    env.close("integral-of-laplacian-vanishes", total, 0, scale=scale)
    env.observe("total", total)
    env.reach(hints=[{"dx0": 0.5, "dx1": 0.25, "dx2": 1, "dr": 0.5, "dz": 0.25, "rin": 1}])


def scenario_divergence(env, cfg):
    import pde

    _prepare(env)
    env.nonlinear()
    spec = dict(cfg["grid"], geometry=cfg.get("geometry", "sym"), hmin=1 / 16, hmax=2, rin_lo=0.25)
    grid, geom = X.make_grid(env, spec)
    dim = grid.dim
    v = env.array("v", (dim,) + grid.shape, -4, 4)
    if grid.__class__.__name__ == "SphericalSymGrid":
        v[1:] = 0
    f = pde.VectorField(grid, v, dtype=object if env.sym else float)
    bc = cfg["bc"]
    div = f.apply_operator("divergence", bc=bc, backend="numba", **cfg.get("opts", {}))
    total = _integral(env, grid, div.data)
    env.close("integral-of-divergence-vanishes", total, 0, scale=SC)
    env.observe("total", total)
    env.reach(hints=[{"dx0": 0.5, "dx1": 0.25, "dx2": 1, "dr": 0.5, "dz": 0.25, "rin": 1}])


def scenario_step(env, cfg):
    """induction step of the simulation clause: one real solver step conserves the integral"""
    import pde

    _prepare(env)
    from .c06_steppers import SOLVERS, _prepare as prep_solvers

    prep_solvers(env.sym)
    env.nonlinear()
    spec = dict(cfg["grid"], geometry="dyadic")
    grid, geom = X.make_grid(env, spec)
    u = env.array("u", grid.shape, -2, 2)
    dt = env.real("dt", 1 / 64, 1 / 4)
    state = pde.ScalarField(grid, u, dtype=object if env.sym else float)
    if cfg["pde"] == "diffusion":
        if cfg["solver"] in ("implicit", "crank-nicolson"):
            # keep the convergence test of the fixed-point iteration quadratic in the state
            D = 0.75
            dt = env.fixed("dt", 0.125)
        else:
            D = env.real("D", 1 / 8, 2)
        eq = pde.DiffusionPDE(diffusivity=D, bc=cfg.get("bc", "auto_periodic_neumann"))
    elif cfg["pde"] == "expr:bc_ops:laplace":
        # conservation rests on the operator-specific condition: the generic `bc` is not conservative
        nonper = {"value": 0}
        generic = {ax: ("periodic" if grid.periodic[i] else nonper) for i, ax in enumerate(grid.axes)}
        eq = pde.PDE({"c": "laplace(0.75 * c - 0.25 * laplace(c))"}, bc=generic, bc_ops={"c:laplace": "auto_periodic_neumann"})
    elif cfg["pde"] == "expr:bc_ops:divergence":
        generic = {ax: ("periodic" if grid.periodic[i] else {"derivative": 1}) for i, ax in enumerate(grid.axes)}
        eq = pde.PDE({"c": "divergence(0.75 * gradient(c))"}, bc=generic, bc_ops={"c:divergence": {ax: ("periodic" if grid.periodic[i] else {"value": 0}) for i, ax in enumerate(grid.axes)}})
    else:
        eq = pde.CahnHilliardPDE(interface_width=cfg.get("width", 0.75), bc_c=cfg.get("bc", "auto_periodic_neumann"), bc_mu=cfg.get("bc", "auto_periodic_neumann"))
    smod, scls = SOLVERS[cfg["solver"]]
    # maxerror = inf: the fixed-point iteration is accepted after its first pass (no data-dependent branch)
    kw = {"maxiter": 2, "maxerror": float("inf")} if cfg["solver"] in ("implicit", "crank-nicolson") else {}
    if cfg.get("explicit_fraction") is not None:
        kw["explicit_fraction"] = cfg["explicit_fraction"]
    solver = getattr(importlib.import_module(smod), scls)(eq, backend=cfg.get("backend", "numpy"), **kw)
    before = _integral(env, grid, np.array(state.data, copy=True))
    stepper = solver.make_stepper(state, dt)
    n = cfg.get("n", 1)
    stepper(state, 0, n * dt)
    after = _integral(env, grid, state.data)
    env.close(f"integral-conserved-by-{n}-step(s)", after, before, scale=SC)
    env.observe("after", after)
    env.reach()


def scenario_tracker(env, cfg):
    """MaterialConservationTracker flags exactly the non-conserved state"""
    import pde
    from pde.trackers.trackers import MaterialConservationTracker

    _prepare(env)
    grid = pde.UnitGrid([3])
    u = env.array("u", grid.shape, -4, 4)
    d = env.real("d", -1, 1)
    f0 = pde.ScalarField(grid, u, dtype=object if env.sym else float)
    tr = MaterialConservationTracker(interrupts=1, atol=1e-4, rtol=1e-4)
    tr.initialize(f0)
    f1 = f0.copy()
    f1.data = np.array(list(reversed(list(u))), dtype=object if env.sym else float)  # same integral
    tr.handle(f1, 0)
    env.prove("conserved-state-accepted", True)
    f2 = f0.copy()
    f2.data = f0.data + d
    raised = False
    try:
        tr.handle(f2, 1)
    except StopIteration:
        raised = True
    ref, m2 = f0.magnitude, f2.magnitude
    big = abs(m2 - ref) > 1e-4 + 1e-4 * abs(ref)
    env.prove("non-conserved-state-flagged-exactly-when-beyond-tolerance", raised == env.is_true(big))
    env.reach()


def _case(name, scenario, **cfg):
    return {"name": name, "scenario": scenario, "cfg": cfg}


def cases(tier, seed):
    q = tier == "quick"
    out = []
    grids = {
        "cart1": {"kind": "cart", "shape": (3,)},
        "cart1:periodic": {"kind": "cart", "shape": (3,), "periodic": (True,)},
        "cart2": {"kind": "cart", "shape": (3, 2)},
        "cart2:periodic-x": {"kind": "cart", "shape": (3, 2), "periodic": (True, False)},
        "cart2:periodic-xy": {"kind": "cart", "shape": (2, 3), "periodic": (True, True)},
        "cart3": {"kind": "cart", "shape": (2, 2, 2)},
        "cart3:periodic-y": {"kind": "cart", "shape": (2, 2, 2), "periodic": (False, True, False)},
        "polar:hole": {"kind": "polar", "shape": (3,), "hole": True},
        "polar:nohole": {"kind": "polar", "shape": (3,), "hole": False},
        "sph:hole": {"kind": "sph", "shape": (3,), "hole": True},
        "sph:nohole": {"kind": "sph", "shape": (3,), "hole": False},
        "cyl:hole": {"kind": "cyl", "shape": (3, 2), "hole": True},
        "cyl:nohole": {"kind": "cyl", "shape": (2, 2), "hole": False},
        "cyl:hole:periodic_z": {"kind": "cyl", "shape": (2, 3), "hole": True, "periodic_z": True},
    }
    for gname, spec in grids.items():
        out.append(_case(f"laplace:{gname}:auto_periodic_neumann", "scenario_laplace", grid=spec))
        out.append(_case(f"laplace:{gname}:derivative-dict", "scenario_laplace", grid=spec, bc={"*": {"derivative": 0}} if not (any(spec.get("periodic", ())) or spec.get("periodic_z")) else "auto_periodic_neumann"))
        if spec["kind"] == "sph":
            out.append(_case(f"laplace:{gname}:conservative=True", "scenario_laplace", grid=spec, opts={"conservative": True}))
    # 9-point stencil (documented option) on isotropic grids
    for per in ((False, False), (True, True)):
        out.append(_case(f"laplace:cart2:9-point:w=1/3:periodic={per}", "scenario_laplace", grid={"kind": "cart", "shape": (3, 3), "periodic": per, "isotropic": True}, opts={"corner_weight": 1 / 3}))
    for per in ((True, False), (False, True)):
        out.append(_case(f"laplace:cart2:9-point:w=1/3:periodic={per}", "scenario_laplace", grid={"kind": "cart", "shape": (3, 3), "periodic": per, "isotropic": True}, opts={"corner_weight": 1 / 3}))
    # divergence: Cartesian and conservative spherical
    for gname in ("cart1", "cart2", "cart2:periodic-x", "cart3", "cart3:periodic-y", "sph:hole", "sph:nohole"):
        spec = grids[gname]
        per = any(spec.get("periodic", ()))
        for bcname, bc in (("value0", "auto_periodic_dirichlet" if per else {"*": {"value": 0}}), ("normal_value0", "auto_periodic_dirichlet" if per else {"*": {"normal_value": 0}})):
            if bcname == "normal_value0" and per:
                continue
            opts = {"conservative": True} if spec["kind"] == "sph" else {}
            out.append(_case(f"divergence:{gname}:{bcname}", "scenario_divergence", grid=spec, bc=bc, opts=opts))
    # simulation steps
    for pde_name in ("diffusion", "cahn-hilliard"):
        # the Cahn-Hilliard rate is cubic: composing it in multi-stage schemes gives polynomials of degree 3^4,
        # beyond the solver; it is checked with the one-stage schemes, the multi-stage ones with diffusion
        solvers = ("euler", "runge-kutta", "adams-bashforth", "implicit", "crank-nicolson") if pde_name == "diffusion" else ("euler",)
        for solver in solvers:
            for gname in ("cart2:periodic-x", "sph:hole") if q else ("cart2:periodic-x", "sph:hole", "cyl:hole", "cart1", "polar:nohole"):
                for backend in ("numpy", "numba"):
                    if q and backend == "numba" and solver not in ("euler", "adams-bashforth"):
                        continue
                    if solver == "runge-kutta" and gname == "cyl:hole":
                        # four stages on six cylinder cells: the float-rounded geometry factors leave a residual polynomial of
                        # degree 4 in (D, dt) with 1e-17-sized coefficients that z3 cannot bound within 60 s: outside the claim
                        continue
                    out.append(_case(f"step:{pde_name}:{solver}:{gname}:{backend}", "scenario_step", grid=grids[gname], pde=pde_name, solver=solver, backend=backend, n=2 if (solver in ("adams-bashforth", "euler") and pde_name == "diffusion") else 1))
    # equations whose conservation rests on an operator-specific condition (bc_ops), and the Crank-Nicolson variants
    for pde_name in ("expr:bc_ops:laplace", "expr:bc_ops:divergence"):
        for gname in ("cart2:periodic-x", "cart1") if q else ("cart2:periodic-x", "cart1", "cart2"):
            if pde_name.endswith("divergence") and gname not in ("cart1", "cart2", "cart2:periodic-x"):
                continue
            for backend in ("numpy", "numba"):
                out.append(_case(f"step:{pde_name}:euler:{gname}:{backend}", "scenario_step", grid=grids[gname], pde=pde_name, solver="euler", backend=backend, n=1))
    for alpha in (0.25, 0.5) if not q else (0.25,):
        for gname in ("cart2:periodic-x", "sph:hole"):
            for backend in ("numpy", "numba"):
                out.append(_case(f"step:diffusion:crank-nicolson:explicit_fraction={alpha}:{gname}:{backend}", "scenario_step", grid=grids[gname], pde="diffusion", solver="crank-nicolson", backend=backend, n=1, explicit_fraction=alpha))
    out.append(_case("tracker:material-conservation", "scenario_tracker"))
    return out


CANARIES = [
    {
        "name": "spherical-divergence-drops-inner-radius",
        "case": "divergence:sph:hole:value0",
        "patch": [("pde.backends.numba.operators.spherical_sym:make_divergence", "rl = rs - dr / 2", "rl = dr * np.arange(dim_r)"), ("pde.backends.numba.operators.spherical_sym:make_divergence", "rh = rs + dr / 2", "rh = rl + dr")],
        "expect": "integral-of-divergence",
    },
    {
        "name": "cylindrical-cell-volume-formula",
        "case": "laplace:cyl:hole:auto_periodic_neumann",
        "patch": [("pde.grids.cylindrical:CylindricalSymGrid.cell_volume_data", "r_vols = 2 * np.pi * dr * rs", "r_vols = 2 * np.pi * dr * (rs + dr)")],
        "expect": "integral-of-laplacian",
    },
]
