"""Shared harness for C07/C08: the real Controller.run with real trackers, interrupts and steppers.

Everything between ``Controller(...)`` and the returned state is /repo code; the harness only
supplies a tiny autonomous PDE (du/dt = a*u + c), recording trackers and the symbolic inputs.
"""

from __future__ import annotations

import importlib
import math

import numpy as np

from symx import ops as O
from symx.values import install_float_shadow

FUNCTIONS = [
    "pde.solvers.controller:Controller.run",
    "pde.solvers.controller:Controller._run_main_process",
    "pde.solvers.controller:Controller._get_stop_handler",
    "pde.trackers.base:TrackerCollection.initialize",
    "pde.trackers.base:TrackerCollection.handle",
    "pde.trackers.base:TrackerCollection.finalize",
    "pde.trackers.base:TrackerBase.initialize",
    "pde.trackers.interrupts:ConstantInterrupts.next",
    "pde.trackers.interrupts:FixedInterrupts.next",
    "pde.trackers.interrupts:LogarithmicInterrupts.next",
    "pde.solvers.base:SolverBase.make_stepper",
    "pde.solvers.base:SolverBase._make_inner_stepper",
    "pde.solvers.euler:EulerSolver._make_single_step_fixed_dt",
    "pde.backends.base:BackendBase.make_stepper",
    "pde.backends.numba._solvers:_make_fixed_stepper",
    "pde.backends.numba.backend:NumbaBackend.make_stepper",
    "pde.backends.numpy.backend:NumpyBackend.make_pde_rhs",
]

GUARD = 2e-6  # tie band (relative to dt) around the code's own 1e-6*dt comparisons
TOL = 1e-9


class _NbProxy:
    """numba module proxy for un-jitted symbolic runs: typing helpers are no-ops"""

    def __init__(self, nb):
        self._nb = nb

    def __getattr__(self, k):
        return getattr(self._nb, k)

    def typeof(self, x):
        return None


_prepared = {}


def prepare(sym: bool):
    if "mods" in _prepared:
        return _prepared["mods"]
    names = [
        "pde.solvers.base",
        "pde.solvers.controller",
        "pde.trackers.interrupts",
        "pde.trackers.base",
        "pde.backends.numba._solvers",
        "pde.solvers.euler",
        "pde.solvers.runge_kutta",
        "pde.solvers.adams_bashforth",
        "pde.solvers.implicit",
        "pde.solvers.crank_nicolson",
    ]
    mods = {n: importlib.import_module(n) for n in names}
    if sym:
        install_float_shadow(*mods.values())
        nbs = mods["pde.backends.numba._solvers"]
        nbs.nb = _NbProxy(nbs.nb)
    _prepared["mods"] = mods
    return mods


HOOK_EPS = 0.125  # the post-step hook adds HOOK_EPS * (number of steps done before) to the state


def make_pde(a, c, calls, hook=False):
    import pde

    class LinearRate(pde.PDEBase):
        """du/dt = a*u + c (autonomous); records the times at which the rate is evaluated"""

        def evolution_rate(self, state, t=0):
            if calls is not None:
                calls.append(t)
            res = state.copy()
            res.data = a * state.data + c
            return res

        def make_evolution_rate(self, state, backend):
            if calls is None:

                def rhs(data, t):
                    return a * data + c

            else:

                def rhs(data, t):
                    calls.append(t)
                    return a * data + c

            return rhs

    if hook:
        eps = HOOK_EPS

        def make_post_step_hook(self, state, backend):
            """stateful hook in the documented form: scalar auxiliary data that is updated at every step and feeds back
            into the state (a read-only observer must not change how it evolves across tracker interrupts)"""

            def post_step_hook(state_data, t, post_step_data):
                state_data += eps * post_step_data
                post_step_data += 1.0
                return state_data, post_step_data

            return post_step_hook, 0.0

        LinearRate.make_post_step_hook = make_post_step_hook
    return LinearRate()


def make_tracker_class():
    from pde.trackers.base import FinishedSimulation, TrackerBase

    class Recorder(TrackerBase):
        """read-only tracker recording (t, #rate evaluations so far, copy of the data)"""

        def __init__(self, interrupts, calls, stop=None):
            super().__init__(interrupts)
            self.calls = calls
            self.records = []
            self.finalized = 0
            self.stop = stop  # None | dict(at_call=j, exc=...)

        def handle(self, field, t):
            self.records.append((t, None if self.calls is None else len(self.calls), np.array(field.data, copy=True)))
            if self.stop is not None and len(self.records) == self.stop["at_call"]:
                if self.stop["exc"] == "FinishedSimulation":
                    raise FinishedSimulation(self.stop.get("reason"))
                raise StopIteration(self.stop.get("reason"))

        def finalize(self, info=None):
            self.finalized += 1

    return Recorder


def make_interrupt(env, mods, spec, idx, dt):
    """build a real interrupt object with symbolic parameters; returns (interrupt, params)"""
    ti = mods["pde.trackers.interrupts"]
    kind = spec["kind"]
    if kind == "const":
        lo = spec.get("min_ratio", 1)
        hi = spec.get("max_ratio", 8)
        D = env.real(f"D{idx}", dim=1)
        env.assume(D >= lo * dt)
        env.assume(D <= hi * dt)
        tst = None
        if spec.get("t_start"):
            tst = env.real(f"Dstart{idx}", dim=1)
            env.assume(tst >= -2 * dt)
            env.assume(tst <= 4 * dt)
        return ti.ConstantInterrupts(D, t_start=tst), {"kind": kind, "D": D, "t_start": tst}
    if kind == "fixed":
        L = spec.get("L", 2)
        xs = []
        for i in range(L):
            x = env.real(f"F{idx}_{i}", dim=1)
            env.assume(x >= (xs[-1] if xs else -1 * dt))
            if xs:
                env.assume(x > xs[-1])
            env.assume(x <= 8 * dt)
            xs.append(x)
        arr = np.empty(L, dtype=object if env.sym else float)
        arr[:] = xs
        return ti.FixedInterrupts(arr), {"kind": kind, "times": xs}
    if kind == "log":
        D = env.real(f"D{idx}", dim=1)
        env.assume(D >= spec.get("min_ratio", 1) * dt)
        env.assume(D <= 4 * dt)
        f = env.real(f"fac{idx}", 1, 3, dim=0) if spec.get("factor", "sym") == "sym" else env.fixed(f"fac{idx}", spec["factor"], dim=0)
        return ti.LogarithmicInterrupts(D, f), {"kind": kind, "D": D, "factor": f}
    if kind == "arbitrary":
        # any deterministic schedule that honours the interrupt contract decided in C09 (answer >= query,
        # strictly later than the previous answer): a non-deterministic stub returning fresh symbols.
        # Covers geometric and user-defined schedules as far as the controller is concerned.
        base = ti.InterruptsBase
        gap = spec.get("min_gap", 0.25)

        class ArbitraryInterrupts(base):
            def __init__(self):
                self.answers = []
                self.dt = dt

            def _fresh(self, t):
                j = len(self.answers)
                a = env.real(f"A{idx}_{j}", dim=1)
                env.assume(a >= t)
                env.assume(a <= t + 8 * dt)
                if self.answers:
                    env.assume(a >= self.answers[-1] + gap * dt)
                self.answers.append(a)
                return a

            def initialize(self, t):
                return self._fresh(t)

            def next(self, t):
                return self._fresh(t)

        return ArbitraryInterrupts(), {"kind": kind}
    raise ValueError(kind)


SOLVERS = {
    "euler": ("pde.solvers.euler", "EulerSolver"),
    "runge-kutta": ("pde.solvers.runge_kutta", "RungeKuttaSolver"),
    "adams-bashforth": ("pde.solvers.adams_bashforth", "AdamsBashforthSolver"),
}


def one_step(solver_name, u, dt, a, c):
    """reference one-step map of the scheme for du/dt = a*u + c"""
    f = lambda x: a * x + c  # noqa: E731
    if solver_name == "euler":
        return u + dt * f(u)
    if solver_name == "runge-kutta":
        k1 = dt * f(u)
        k2 = dt * f(u + 0.5 * k1)
        k3 = dt * f(u + 0.5 * k2)
        k4 = dt * f(u + k3)
        return u + (k1 + 2 * k2 + 2 * k3 + k4) / 6
    raise ValueError(solver_name)


def run_controller(env, cfg, with_stop=True):
    """set up and run one simulation; returns a dict of observables"""
    import pde
    from pde.solvers.controller import Controller

    mods = prepare(env.sym)
    K = cfg["K"]
    if cfg.get("dt", "sym") == "sym":
        dt = env.real("dt", 1 / 64, 64, dim=1)
    else:
        dt = env.fixed("dt", cfg["dt"], dim=1)
    if cfg.get("t_start", "zero") == "sym":
        ts = env.real("tstart", dim=1)
        env.assume(ts >= -8 * dt)
        env.assume(ts <= 8 * dt)
    else:
        ts = 0
    if cfg["range"] == "whole":
        N = env.integer("N", 1, K)
        T = N * dt
    else:
        N = None
        T = env.real("T", dim=1)
        env.assume(T > 0)
        env.assume(T <= K * dt)
    t_end = ts + T
    u0 = env.real("u0", -8, 8, dim=0)
    c = env.real("c", -8, 8, dim=-1)
    a = env.fixed("a", cfg.get("a", 0), dim=-1)
    backend = cfg.get("backend", "numpy")
    calls = [] if (env.sym or backend == "numpy") else None

    eq = make_pde(a, c, calls, hook=bool(cfg.get("hook")))
    grid = pde.UnitGrid([1])
    data = np.empty(1, dtype=object if env.sym else float)
    data[0] = u0
    init = pde.ScalarField(grid, data, dtype=object if env.sym else float)
    init_id_data = init.data.copy()
    Recorder = make_tracker_class()
    trackers, tparams = [], []
    for i, spec in enumerate(cfg.get("trackers", [])):
        if "share" in spec:
            # the very same interrupt instance as an earlier tracker (TrackerCollection.from_data must un-share it)
            intr, par = trackers[spec["share"]].interrupt, tparams[spec["share"]]
        else:
            intr, par = make_interrupt(env, mods, spec, i, dt)
        stop = None
        if with_stop and cfg.get("stop") and cfg["stop"]["tracker"] == i:
            stop = cfg["stop"]
        trackers.append(Recorder(intr, calls, stop=stop))
        tparams.append(par)
    sname = cfg.get("solver", "euler")
    smod, scls = SOLVERS[sname]
    solver = getattr(importlib.import_module(smod), scls)(eq, backend=backend)
    ctrl = Controller(solver, t_range=(ts, t_end), tracker=trackers)
    final = ctrl.run(init, dt=dt)
    return {
        "dt": dt,
        "ts": ts,
        "T": T,
        "N": N,
        "t_end": t_end,
        "u0": u0,
        "c": c,
        "a": a,
        "K": K,
        "solver": sname,
        "hook": bool(cfg.get("hook")),
        "hook_data": solver.info.get("post_step_data"),
        "calls": calls,
        "steps": solver.info["steps"],
        "t_final": ctrl.info["t_final"],
        "info": ctrl.info,
        "final": final,
        "init": init,
        "init_data_before": init_id_data,
        "trackers": trackers,
        "tparams": tparams,
    }


def nfold(r, n):
    u = r["u0"]
    if r["solver"] == "adams-bashforth":
        dt, a, c = r["dt"], r["a"], r["c"]
        f = lambda x: a * x + c  # noqa: E731
        prev = u - dt * f(u)  # the solver's documented bootstrap: backward Euler estimate
        for _ in range(n):
            u, prev = u + dt * (1.5 * f(u) - 0.5 * f(prev)), u
        return u
    for k in range(n):
        u = one_step(r["solver"], u, r["dt"], r["a"], r["c"])
        if r.get("hook"):
            u = u + HOOK_EPS * k
    return u


def concrete_steps(env, r):
    """the step count as a python int (it is pinned by the path condition)"""
    s = r["steps"]
    return int(s)


def guard_ok(x, y, dt):
    """tie-band guard: x and y coincide or differ by more than GUARD*dt"""
    d = abs(x - y)
    return O.lor(d <= 0, d > GUARD * dt)
