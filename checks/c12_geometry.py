"""C12 — grid geometry and coordinate transformations are self-consistent."""

from __future__ import annotations

import importlib
from fractions import Fraction as F

import numpy as np

from symx import ops as O
from symx.values import install_float_shadow

from . import _ops as X

ID = "C12"
LEVEL = "model_checking"
FUNCTIONS = [
    "pde.grids.base:discretize_interval",
    "pde.grids.cartesian:CartesianGrid.__init__",
    "pde.grids.cartesian:CartesianGrid.cell_volume_data",
    "pde.grids.cartesian:CartesianGrid.volume",
    "pde.grids.spherical:SphericalSymGridBase.__init__",
    "pde.grids.spherical:SphericalSymGridBase.cell_volume_data",
    "pde.grids.spherical:SphericalSymGridBase.volume",
    "pde.grids.cylindrical:CylindricalSymGrid.__init__",
    "pde.grids.cylindrical:CylindricalSymGrid.cell_volume_data",
    "pde.grids.cylindrical:CylindricalSymGrid.volume",
    "pde.grids.cylindrical:CylindricalSymGrid.difference_vector",
    "pde.grids.base:GridBase.cell_volumes",
    "pde.grids.base:GridBase.integrate",
    "pde.grids.base:GridBase.transform",
    "pde.grids.base:GridBase.normalize_point",
    "pde.grids.base:GridBase.contains_point",
    "pde.grids.base:GridBase._difference_vector",
    "pde.grids.base:GridBase.difference_vector",
    "pde.grids.base:GridBase.distance",
    "pde.grids.base:GridBase._grid_to_cell",
    "pde.fields.scalar:ScalarField.project",
]
ASSUMPTIONS = [
    "bounds / radii / spacings symbolic through the real constructors (spacings in [1/16, 2], origins in [-2, 2], inner radius in [1/4, 3] or 0); shapes concrete with 1-3 cells per axis",
    "points symbolic in a box of 4 domain sizes around the domain (inside, on faces, far outside)",
    "pi is a symbol with 3.1415926 < pi < 3.1415927; x % p is x - p*floor(x/p); np.linalg.norm is sqrt(sum of squares) with a fresh non-negative symbol",
    "equalities up to 1e-9*scale",
]
STUBS = ["grid-constructor shims of C01", "np.pi -> symbol", "np.asarray(point, dtype=double) inside pde.grids.base: identity on symbolic reals"]
OUTSIDE = ["Cartesian<->curvilinear point transformations with symbolic angles (trigonometry) - the angle-free part (cell<->grid, Cartesian grids, cylinder axis) is covered", "get_cartesian_grid, plotting helpers", "huge/tiny bounds in the floating-point sense"]
BOUNDS = {"max_paths": 600, "tmax": 600.0, "query_timeout_ms": 20000}
EXPLANATION = "real constructors and geometry methods on symbolic bounds and points; identities decided per path of the wrap/reflect/floor branches"
SC = 4096

GRIDS = {
    "cart1": {"kind": "cart", "shape": (3,)},
    "cart1:periodic": {"kind": "cart", "shape": (2,), "periodic": (True,)},
    "cart1:1cell": {"kind": "cart", "shape": (1,)},
    "cart2:periodic-x": {"kind": "cart", "shape": (2, 3), "periodic": (True, False)},
    "cart2:periodic-xy": {"kind": "cart", "shape": (2, 1), "periodic": (True, True)},
    "cart3:periodic-z": {"kind": "cart", "shape": (1, 2, 2), "periodic": (False, False, True)},
    "polar:hole": {"kind": "polar", "shape": (3,), "hole": True},
    "polar:nohole": {"kind": "polar", "shape": (2,), "hole": False},
    "sph:hole": {"kind": "sph", "shape": (3,), "hole": True},
    "sph:nohole": {"kind": "sph", "shape": (1,), "hole": False},
    "cyl:hole": {"kind": "cyl", "shape": (2, 2), "hole": True},
    "cyl:nohole:periodic_z": {"kind": "cyl", "shape": (2, 3), "hole": False, "periodic_z": True},
    "cyl:hole:periodic_z": {"kind": "cyl", "shape": (1, 2), "hole": True, "periodic_z": True},
}


def bounds_text(tier):
    return "13 grid configurations (all classes, holes, periodic flags, 1-cell axes); single points and batches of 2"


_prep = {}


def _prepare(env):
    X.prepare(env.sym)
    if not env.sym:
        return None
    pi = env.real("pi", 3.1415926, 3.1415927)
    for name in ("pde.grids.spherical", "pde.grids.cylindrical", "pde.grids.base", "pde.grids.cartesian", "pde.tools.cuboid", "pde.fields.scalar", "pde.grids.coordinates.base", "pde.grids.coordinates.cartesian", "pde.grids.coordinates.polar", "pde.grids.coordinates.spherical", "pde.grids.coordinates.cylindrical"):
        m = importlib.import_module(name)
        if not isinstance(m.np, X._NpProxy):
            m.np = X._NpProxy(np)
        m.np.pi = pi
        m.np.linalg.exact = True
        install_float_shadow(m)
    return pi


def _grid(env, gname):
    spec = dict(GRIDS[gname], geometry="sym", hmin=1 / 16, hmax=2, rin_lo=0.25)
    return X.make_grid(env, spec)


def scenario_geometry(env, cfg):
    import pde

    pi = _prepare(env)
    if pi is None:
        pi = np.pi
    env.nonlinear()
    grid, geom = _grid(env, cfg["grid"])
    shape = grid.shape
    kind = geom["kind"]
    x0, h = geom["x0"], geom["h"]
    # centres and spacings
    for a, n in enumerate(shape):
        env.close(f"axis{a}:spacing=(xmax-xmin)/N", grid.discretization[a], h[a], scale=SC)
        env.close(f"axis{a}:centres=xmin+(i+1/2)dx", list(grid.axes_coords[a]), [x0[a] + (i + 0.5) * h[a] for i in range(n)], scale=SC)
        env.close(f"axis{a}:bounds", list(grid.axes_bounds[a]), [x0[a], x0[a] + n * h[a]], scale=SC)
    # exact cell volumes in the coordinate system
    vols = np.broadcast_to(grid.cell_volumes, shape) if np.ndim(grid.cell_volumes) else np.full(shape, grid.cell_volumes, dtype=object if env.sym else float)
    exact = np.empty(shape, dtype=object if env.sym else float)
    for idx in np.ndindex(*shape):
        if kind == "cart":
            v = 1
            for a in range(len(shape)):
                v = v * h[a]
        else:
            r1 = x0[0] + idx[0] * h[0]
            r2 = r1 + h[0]
            if kind == "polar":
                v = pi * (r2 * r2 - r1 * r1)
            elif kind == "sph":
                v = 4 * pi / 3 * (r2 * r2 * r2 - r1 * r1 * r1)
            else:
                v = pi * (r2 * r2 - r1 * r1) * h[1]
        exact[idx] = v
    env.close("cell-volumes-exact", list(np.asarray(vols, dtype=object if env.sym else float).flat), list(exact.flat), scale=SC * 64)
    total = O.total(exact.flat)
    env.close("sum(cell-volumes)=grid.volume", grid.volume, total, scale=SC * 64)
    ones = np.ones(shape) if not env.sym else np.array(np.ones(shape), dtype=object)
    env.close("integrate(1)=volume", grid.integrate(ones), total, scale=SC * 64)
    env.observe("volume", grid.volume)
    # integration over selected axes and projection
    if len(shape) >= 2:
        u = env.array("u", shape, -4, 4)
        f = pde.ScalarField(grid, u, dtype=object if env.sym else float)
        full = grid.integrate(u)
        for a in range(len(shape)):
            part = grid.integrate(ones, axes=a)
            if kind == "cart":
                env.close(f"integrate(1,axes={a})=length", list(np.asarray(part).flat), [shape[a] * h[a]] * int(np.prod(shape) // shape[a]), scale=SC)
            proj = f.project(grid.axes[a])
            env.close(f"project({grid.axes[a]})-preserves-integral", proj.integral, full, scale=SC * 64)
    env.reach(hints=[{"dx0": 0.5, "dx1": 0.25, "dx2": 1, "dr": 0.5, "dz": 0.25, "rin": 1, "x0_0": 0, "x0_1": 0, "x0_2": 0, "z0": 0}])


def _point(env, name, grid, geom, spread=4):
    na = grid.num_axes
    p = np.empty(na, dtype=object if env.sym else float)
    for a in range(na):
        size = grid.shape[a] * geom["h"][a]
        t = env.real(f"{name}{a}", -spread, spread + 1)
        p[a] = geom["x0"][a] + t * size
    return p


def scenario_points(env, cfg):
    _prepare(env)
    env.nonlinear("obligations")  # (mod/floor of products of symbols: decided much faster by a fresh solver)
    grid, geom = _grid(env, cfg["grid"])
    na = grid.num_axes
    shape = grid.shape
    x0, h = geom["x0"], geom["h"]
    sizes = [shape[a] * h[a] for a in range(na)]
    p = _point(env, "p", grid, geom)
    # cell <-> grid coordinates are mutually inverse and map centres to index + 1/2
    c = grid.transform(np.array(p, copy=True), "grid", "cell")
    back = grid.transform(np.array(c, copy=True), "cell", "grid")
    env.close("grid->cell->grid", list(np.atleast_1d(back)), list(p), scale=SC)
    for a in range(na):
        env.close(f"cell-coordinate-axis{a}=(x-xmin)/dx", np.atleast_1d(c)[a], (p[a] - x0[a]) / h[a], scale=SC)
    centre = np.array([grid.axes_coords[a][shape[a] - 1] for a in range(na)], dtype=object if env.sym else float)
    cc = grid.transform(centre, "grid", "cell")
    env.close("centre->index+1/2", list(np.atleast_1d(cc)), [shape[a] - 0.5 for a in range(na)], scale=SC)
    # normalize_point
    for reflect in (False, True):
        q = grid.normalize_point(np.array(p, copy=True), reflect=reflect)
        q = np.atleast_1d(q)
        q2 = np.atleast_1d(grid.normalize_point(np.array(q, copy=True), reflect=reflect))
        env.close(f"normalize(reflect={reflect}):idempotent", list(q2), list(q), scale=SC)
        for a in range(na):
            moved = grid.periodic[a] or reflect
            if not moved:
                env.close(f"normalize(reflect={reflect}):axis{a}-untouched", q[a], p[a], scale=SC)
                continue
            env.prove(f"normalize(reflect={reflect}):axis{a}-inside", O.land(q[a] >= x0[a] - 1e-9, q[a] <= x0[a] + sizes[a] + 1e-9))
            if grid.periodic[a]:
                env.prove(f"normalize(reflect={reflect}):axis{a}-moved-by-whole-periods", O.int_multiple(q[a] - p[a], sizes[a]))
            else:
                # reflection: q = xmin + |((p - xmax) mod 2L) - L|  ⇒  q ≡ ±p modulo 2L (mirror images)
                d1 = (q[a] - p[a]) / (2 * sizes[a])
                d2 = (q[a] + p[a] - 2 * x0[a]) / (2 * sizes[a])
                env.prove(f"normalize(reflect={reflect}):axis{a}-is-a-mirror-image", O.lor(O.is_int(d1), O.is_int(d2)))
        if reflect or all(grid.periodic):
            env.prove(f"normalize(reflect={reflect}):result-contained", bool(grid.contains_point(np.array(q, copy=True), coords="grid")) if not env.sym else _contains(env, grid, q))
        # a batch of points gives, row by row, the results of the single points
        q_other = _point(env, f"b{int(reflect)}", grid, geom) if not reflect else p[::-1].copy() if na > 1 else p + sizes[0] / 4
        if reflect and na > 1:
            # (a second point made of the first one's coordinates, rescaled to the other axes' sizes)
            q_other = np.array([geom["x0"][a] + (p[(a + 1) % na] - geom["x0"][(a + 1) % na]) * (sizes[a] / sizes[(a + 1) % na]) for a in range(na)], dtype=object if env.sym else float)
        batch = np.array([list(np.atleast_1d(p)), list(np.atleast_1d(q_other))], dtype=object if env.sym else float)
        if na == 1:
            batch = batch.reshape(2, 1)
        qb = grid.normalize_point(np.array(batch, copy=True), reflect=reflect)
        single = [np.atleast_1d(grid.normalize_point(np.array(batch[k], copy=True), reflect=reflect)) for k in range(2)]
        env.prove(f"normalize(reflect={reflect}):batch-shape", tuple(np.shape(qb)) == (2, na))
        if tuple(np.shape(qb)) == (2, na):
            env.close(f"normalize(reflect={reflect}):batch=row-wise-single-points", [qb[k][a] for k in range(2) for a in range(na)], [single[k][a] for k in range(2) for a in range(na)], scale=SC)
        # integer-typed input (python ints, integer ndarray): same result as for the same point given as floats,
        # and the caller's array is not modified
        ivals = [3, -2, 5][:na]
        want = np.atleast_1d(grid.normalize_point(np.array([F(v) if env.sym else float(v) for v in ivals], dtype=object if env.sym else float), reflect=reflect))
        base_np = importlib.import_module("pde.grids.base").np
        for form in ("int64-ndarray", "list-of-int"):
            arg = np.array(ivals, dtype=np.int64) if form == "int64-ndarray" else list(ivals)
            if na == 1 and form == "list-of-int":
                arg = ivals[0]
            if env.sym:
                base_np.lift_double = True
            try:
                got = np.atleast_1d(grid.normalize_point(arg, reflect=reflect))
            finally:
                if env.sym:
                    base_np.lift_double = False
            env.close(f"normalize(reflect={reflect}):{form}=same-as-float-input", list(got), list(want), scale=SC)
            env.prove(f"normalize(reflect={reflect}):{form}-argument-not-modified", [int(v) for v in np.atleast_1d(arg)] == ivals[: len(np.atleast_1d(arg))])
    env.reach()


def _contains(env, grid, q):
    r = grid.contains_point(np.array(q, copy=True), coords="grid")
    return env.is_true(r) if not isinstance(r, (bool, np.bool_)) else bool(r)


def scenario_random_point(env, cfg):
    """points generated inside the grid are reported as contained (RNG draws symbolic in [0, 1))"""
    _prepare(env)
    grid, geom = _grid(env, cfg["grid"])
    draws = []

    class Rng(np.random.Generator):
        def __init__(self):
            super().__init__(np.random.PCG64(0))

        def uniform(self, lo=0.0, hi=1.0, size=None):
            k = len(draws)
            if size is None:
                u = env.real(f"xi{k}", 0, 1, hi_open=True)
                draws.append(u)
                return lo + (hi - lo) * u
            n = int(np.prod(size))
            out = np.empty(n, dtype=object if env.sym else float)
            lo_a = np.broadcast_to(np.asarray(lo, dtype=object if env.sym else float), (n,))
            hi_a = np.broadcast_to(np.asarray(hi, dtype=object if env.sym else float), (n,))
            for i in range(n):
                u = env.real(f"xi{k + i}", 0, 1, hi_open=True)
                draws.append(u)
                out[i] = lo_a[i] + (hi_a[i] - lo_a[i]) * u
            return out.reshape(size)

        def random(self, size=None):
            return self.uniform(0.0, 1.0, size)

    p = grid.get_random_point(coords="grid", rng=Rng())
    p = np.atleast_1d(p)
    for a in range(grid.num_axes):
        lo = geom["x0"][a]
        hi = lo + grid.shape[a] * geom["h"][a]
        env.prove(f"random-point-axis{a}-inside", O.land(p[a] >= lo - 1e-9, p[a] <= hi + 1e-9))
    r = grid.contains_point(np.array(p, copy=True), coords="grid")
    env.prove("random-point-contained", env.is_true(r) if not isinstance(r, (bool, np.bool_)) else bool(r))
    env.reach()


def scenario_distance(env, cfg):
    """distances: symmetric, invariant under period shifts, at most half a period along periodic axes"""
    _prepare(env)
    env.nonlinear()
    grid, geom = _grid(env, cfg["grid"])
    na = grid.num_axes
    shape = grid.shape
    sizes = [shape[a] * geom["h"][a] for a in range(na)]
    p = _point(env, "p", grid, geom, spread=2)
    q = _point(env, "q", grid, geom, spread=2)
    if geom["kind"] in ("polar", "sph", "cyl"):
        env.assume(p[0] >= 0)
        env.assume(q[0] >= 0)
    d_pq = np.atleast_1d(grid.difference_vector(np.array(p, copy=True), np.array(q, copy=True)))
    d_qp = np.atleast_1d(grid.difference_vector(np.array(q, copy=True), np.array(p, copy=True)))
    # Cartesian component that belongs to grid axis a
    comp = {"cart": list(range(na)), "polar": [0], "sph": [0], "cyl": [0, 2]}[geom["kind"]]
    for a in range(na):
        k = comp[a]
        if grid.periodic[a]:
            L = sizes[a]
            env.prove(f"axis{a}:at-most-half-a-period", abs(d_pq[k]) <= L / 2 + 1e-9)
            env.prove(f"axis{a}:nearest-image", O.int_multiple(d_pq[k] - (q[a] - p[a]), L))
            # symmetric up to the tie at exactly half a period
            env.prove(f"axis{a}:symmetric", O.lor(abs(d_pq[k] + d_qp[k]) <= 1e-9, abs(abs(d_pq[k]) - L / 2) <= 1e-9))
            shift = env.integer("shift", -2, 2)
            q2 = np.array(q, copy=True)
            q2[a] = q[a] + shift * L
            d2 = np.atleast_1d(grid.difference_vector(np.array(p, copy=True), q2))
            env.prove(f"axis{a}:invariant-under-period-shifts", O.lor(abs(d2[k] - d_pq[k]) <= 1e-9, abs(abs(d_pq[k]) - L / 2) <= 1e-9))
        else:
            env.close(f"axis{a}:plain-difference", d_pq[k], q[a] - p[a], scale=SC)
    # distance = Euclidean norm of the difference vector
    dist = grid.distance(np.array(p, copy=True), np.array(q, copy=True))
    env.close("distance^2=|difference|^2", dist * dist, O.total(x * x for x in d_pq), scale=SC * 64)
    env.close("distance-symmetric", dist, grid.distance(np.array(q, copy=True), np.array(p, copy=True)), scale=SC, info=True)
    env.reach()


def cases(tier, seed):
    out = []
    for g in GRIDS:
        out.append({"name": f"geometry:{g}", "scenario": "scenario_geometry", "cfg": {"grid": g}})
        out.append({"name": f"points:{g}", "scenario": "scenario_points", "cfg": {"grid": g}})
        out.append({"name": f"random-point:{g}", "scenario": "scenario_random_point", "cfg": {"grid": g}})
    for g in ("cart1:periodic", "cart2:periodic-x", "cart2:periodic-xy", "cart3:periodic-z", "cyl:nohole:periodic_z", "cyl:hole:periodic_z", "cyl:hole", "cart1"):
        out.append({"name": f"distance:{g}", "scenario": "scenario_distance", "cfg": {"grid": g}})
    return out


CANARIES = [
    {
        "name": "spherical-shell-volume-formula",
        "case": "geometry:sph:hole",
        "patch": [("pde.grids.spherical:SphericalSymGridBase.cell_volume_data", "volumes_l = volume_from_radius(rs - 0.5 * dr, dim=self.dim)", "volumes_l = volume_from_radius(rs - 0.5 * dr, dim=self.dim - 1)")],
        "expect": "volume",
    },
    {
        "name": "difference-vector-single-wrap",
        "case": "distance:cart2:periodic-x",
        "patch": [("pde.grids.base:GridBase._difference_vector", "diff[..., i] = (diff[..., i] + size / 2) % size - size / 2", "diff[..., i] = diff[..., i] - size * (diff[..., i] > size / 2) + size * (diff[..., i] < -size / 2)")],
        "expect": "half-a-period|nearest|invariant",
    },
]
