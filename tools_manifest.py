#!/usr/bin/env python3
"""regenerate MANIFEST.json from checks/*.py (run with ./run py tools_manifest.py)"""
import importlib
import json
import sys
from pathlib import Path

ROOT = Path(__file__).resolve().parent
sys.path.insert(0, str(ROOT))
props = [json.loads(l) for l in (ROOT / "properties.jsonl").read_text().splitlines() if l.strip()]
checks = []
na = []
PENDING = json.loads((ROOT / "not_applicable.json").read_text()) if (ROOT / "not_applicable.json").exists() else {}
for p in props:
    pid = p["id"]
    mods = sorted((ROOT / "checks").glob(f"{pid.lower()}_*.py"))
    if not mods or pid in PENDING:
        na.append({"property_id": pid, "reason": PENDING.get(pid, "check not built yet in this round (design in DESIGN.md §3); no claim is made")})
        continue
    m = importlib.import_module(f"checks.{mods[0].stem}")
    checks.append(
        {
            "property_id": pid,
            "quick_cmd": f"./run check {pid} --tier quick",
            "thorough_cmd": f"./run check {pid} --tier thorough",
            "evidence_file": f"evidence/{pid}.json",
            "replay_cmd_template": "./run replay {path}",
            "engine": "symx",
            "level_claimed": {
                "category": getattr(m, "LEVEL", "model_checking"),
                "text": getattr(m, "LEVEL_TEXT", "bounded symbolic execution of the real code: every path within the stated bounds is explored and every obligation is decided by z3 for all input values in the stated boxes; a bounded claim, not a proof"),
                "design_ref": f"DESIGN.md §3 {pid}",
            },
            "level_note": getattr(m, "LEVEL_NOTE", "trusted: z3 (cross-checked by cvc5 where stated), the symbolic value layer symx/values.py (validated per run against the JIT build at model points), real-arithmetic semantics of floats, the listed stubs"),
            "technique": getattr(m, "TECHNIQUE", "symbolic execution of the real Python/numba source on z3 terms with path exploration; per-path SMT validity queries (z3); counterexample replay on the JIT build"),
        }
    )
man = {
    "version": 1,
    "setup_cmd": "./run setup",
    "hooks": {
        "guard": "PY_PDE_VERIF",
        "enable": "no hooks: checks import /repo's working tree directly (NUMBA_DISABLE_JIT=1 in harness processes); the guard name is reserved and unused",
        "baseline_off_cmd": "cd /repo && /venv/bin/python -m pytest -ra -q -p no:cacheprovider --timeout=900 --continue-on-collection-errors",
        "source_commits": [],
        "add_only": True,
    },
    "engines": [
        {
            "name": "symx",
            "path": "symx/",
            "serves_properties": [c["property_id"] for c in checks],
            "kind_free_text": "own symbolic executor: z3-backed number classes stored in numpy object arrays run through the real py-pde code; DFS path explorer; z3 decides per-path obligations; replays in a fresh JIT-enabled interpreter",
        }
    ],
    "checks": checks,
    "not_applicable": na,
    "notes": "exit 0 = held within bounds; exit 1 + VIOLATION line = reproduced counterexample; exit 3 = harness error / inconclusive mandatory obligation (never reported as success)",
}
(ROOT / "MANIFEST.json").write_text(json.dumps(man, indent=1) + "\n")
try:
    import jsonschema

    jsonschema.validate(man, json.loads(Path("/root/.vp/MANIFEST.schema.json").read_text()))
    print("MANIFEST valid:", len(checks), "checks,", len(na), "not applicable")
except ImportError:
    print("written (jsonschema not available)")
